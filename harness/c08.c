/* C08 harness: the primitives of der.c / oid.c / apdu.c / hex.c / b64.c / dec.c on the real
   library, same line protocol as lean/Bee2V/C08/Drv.lean.

   Every input octet string is placed flush against the END of an exactly-sized malloc block
   (hex_arg), every output buffer is allocated with exactly the size the function announced with
   a null output pointer, so a one-octet over-read or over-write is an ASan report (-> CRASH line
   for that op).  SIZE_MAX is printed as "err". */
#include <bee2/core/der.h>
#include <bee2/core/oid.h>
#include <bee2/core/apdu.h>
#include <bee2/core/hex.h>
#include <bee2/core/b64.h>
#include <bee2/core/dec.h>
#include <bee2/core/str.h>
#include <bee2/core/mem.h>
static void handle(int argc, char** argv);
#include "common.h"

#include <bee2/core/safe.h>
/* SAFE(f)/FAST(f): f / f_fast in the default build, f_safe / f under -DSAFE_FAST; both editions are exported */

#define ERR ((size_t)-1)
#define OP(s) (strcmp(argv[0], s) == 0)

/* exact-size output buffer (size 0 -> pointer to the end of a 1-octet block) */
static unsigned char* out_buf(size_t n)
{
	unsigned char* p = (unsigned char*)malloc(n ? n : 1);
	memset(p, 0xA5, n ? n : 1);
	return n ? p : p + 1;
}
static void out_free(unsigned char* p, size_t n) { free(n ? p : p - 1); }

/* a decode whose null-output probe FAILED, once more with non-null outputs (a block large enough for anything a
   correct decoder can produce from n input octets): some paths copy from the input only when the output is present,
   so an over-read of a rejected input is visible only here (the input is an exact-size block) */
#define FAIL_NONNULL(call_, cap_) do { size_t cap__ = (cap_); size_t len2 = 0; \
	v = out_buf(cap__); memset(v, 0, cap__); \
	printf((call_) == ERR ? "err" : "null-mismatch"); (void)len2; \
	out_free(v, cap__); } while (0)

/* a FAILED fixed-length decode into the caller's buffer of exactly the declared capacity: the block is exact
   (a write past the capacity is an ASan report) and carries a canary (the models say a failed decode writes nothing) */
#define FAIL_INTO(call_, cap_) do { size_t cap__ = (cap_), i__, w__ = 0; \
	if (cap__ > 4096) { printf("err"); break; } \
	v = out_buf(cap__); memset(v, 0xC5, cap__); \
	r = (call_); \
	for (i__ = 0; i__ < cap__; ++i__) w__ |= (v[i__] != 0xC5); \
	printf(r != ERR ? "null-mismatch" : w__ ? "err wrote" : "err"); \
	out_free(v, cap__); } while (0)

/* hex token -> exact-size C string (no zero octets inside); 0 = not a string */
static char* str_arg(const char* s, size_t* len)
{
	size_t n, i;
	unsigned char* v = hex_arg(s, &n);
	char* p;
	for (i = 0; i < n; ++i)
		if (v[i] == 0) { hex_free(v, n); return 0; }
	p = (char*)malloc(n + 1);
	memcpy(p, v, n);
	p[n] = 0;
	hex_free(v, n);
	*len = n;
	return p;
}

static int is_nat(const char* s)
{
	if (!*s) return 0;
	for (; *s; ++s) if (*s < '0' || *s > '9') return 0;
	return 1;
}

static char tlbuf[128];
static const char* tl_str(const octet* x, size_t n)
{
	u32 tag = 0xDEADBEEF; size_t len = 0x5A5A5A5A;
	size_t r = derTLDec(&tag, &len, x, n);
	size_t r0 = derTLDec(0, 0, x, n);
	if (r != r0) return "null-mismatch";
	if (r == ERR) return "err";
	sprintf(tlbuf, "%u %zu %zu", (unsigned)tag, len, r);
	return tlbuf;
}

static char decbuf[192];
static const char* dec_str(const octet* x, size_t n)
{
	u32 tag = 0xDEADBEEF; size_t len = 0x5A5A5A5A; const octet* val = 0;
	size_t r = derDec(&tag, &val, &len, x, n);
	size_t r0 = derDec(0, 0, 0, x, n);
	if (r != r0) return "null-mismatch";
	if (r == ERR) return "err";
	sprintf(decbuf, "%u %zu %zu %zu", (unsigned)tag, (size_t)(val - x), len, r);
	return decbuf;
}

static void blk(int argc, char** argv, int which)
{
	size_t n, i; unsigned b, run = 0; char cur[256], now[256];
	octet* p = hex_arg(argv[1], &n);
	octet* x = (octet*)malloc(n + 1);
	memcpy(x, p, n);
	cur[0] = 0;
	for (b = 0; b < 256; ++b)
	{
		x[n] = (octet)b;
		if (which == 0) strcpy(now, tl_str(x, n + 1));
		else sprintf(now, "%s/%d", dec_str(x, n + 1), derIsValid(x, n + 1) ? 1 : 0);
		if (b && strcmp(now, cur) == 0) { ++run; continue; }
		if (b) printf("%u*%s;", run, cur);
		strcpy(cur, now), run = 1;
	}
	printf("%u*%s", run, cur);
	free(x); hex_free(p, n);
	(void)i; (void)argc;
}

static void handle(int argc, char** argv)
{
	size_t n = 0, m = 0, r, len;
	octet* x = 0; octet* v = 0; char* s = 0;
	u32 tag;
	static int first = 1;
	/* line-buffered output: after a sanitizer abort every completed line has been delivered,
	   so the crash is attributed to the right op */
	if (first) setvbuf(stdout, 0, _IOLBF, 0), first = 0;
	if (argc < 2) { printf("bad-op"); return; }
	/* ---------------------------------------------------------------- TL / TLV */
	if (OP("tl") && argc == 2)
	{
		x = hex_arg(argv[1], &n);
		printf("%s", tl_str(x, n));
		hex_free(x, n);
	}
	else if (OP("tlblk") && argc == 2) blk(argc, argv, 0);
	else if (OP("decblk") && argc == 2) blk(argc, argv, 1);
	else if (OP("dec") && argc == 2)
	{
		x = hex_arg(argv[1], &n);
		printf("%s", dec_str(x, n));
		hex_free(x, n);
	}
	else if (OP("dec2") && argc == 3)
	{
		const octet* val = 0;
		x = hex_arg(argv[1], &n);
		r = derDec2(&val, &len, x, n, (u32)u_arg(argv[2]));
		if (r == ERR) printf("err"); else printf("%zu %zu %zu", (size_t)(val - x), len, r);
		hex_free(x, n);
	}
	else if (OP("dec3") && argc == 4)
	{
		const octet* val = 0;
		x = hex_arg(argv[1], &n);
		r = derDec3(&val, x, n, (u32)u_arg(argv[2]), (size_t)u_arg(argv[3]));
		if (r == ERR) printf("err"); else printf("%zu %zu", (size_t)(val - x), r);
		hex_free(x, n);
	}
	else if (OP("dec4") && argc == 4)
	{
		x = hex_arg(argv[1], &n);
		v = hex_arg(argv[3], &m);
		r = derDec4(x, n, (u32)u_arg(argv[2]), v, m);
		if (r == ERR) printf("err"); else printf("%zu", r);
		hex_free(x, n); hex_free(v, m);
	}
	else if (OP("isv") && argc == 2)
	{
		x = hex_arg(argv[1], &n);
		printf("%d", derIsValid(x, n) ? 1 : 0);
		hex_free(x, n);
	}
	else if (OP("isv2") && argc == 3)
	{
		x = hex_arg(argv[1], &n);
		printf("%d", derIsValid2(x, n, (u32)u_arg(argv[2])) ? 1 : 0);
		hex_free(x, n);
	}
	else if (OP("sw") && argc == 3)
	{
		x = hex_arg(argv[1], &n);
		printf("%d", derStartsWith(x, n, (u32)u_arg(argv[2])) ? 1 : 0);
		hex_free(x, n);
	}
	else if (OP("tlenc") && argc == 3)
	{
		if (!is_nat(argv[1]) || !is_nat(argv[2]) || u_arg(argv[1]) > 0xFFFFFFFFull) { printf("bad-op"); return; }
		tag = (u32)u_arg(argv[1]); len = (size_t)u_arg(argv[2]);
		r = derTLEnc(0, tag, len);
		if (r == ERR) { printf("err"); return; }
		v = out_buf(r);
		if (derTLEnc(v, tag, len) != r) printf("size-mismatch"); else put_hex(v, r);
		out_free(v, r);
	}
	else if (OP("enc") && argc == 3)
	{
		tag = (u32)u_arg(argv[1]);
		x = hex_arg(argv[2], &n);
		r = derEnc(0, tag, x, n);
		if (r == ERR) printf("err");
		else
		{
			v = out_buf(r);
			if (derEnc(v, tag, x, n) != r) printf("size-mismatch"); else put_hex(v, r);
			out_free(v, r);
		}
		hex_free(x, n);
	}
	/* ---------------------------------------------------------------- SIZE */
	else if (OP("sizeenc") && argc == 3)
	{
		tag = (u32)u_arg(argv[1]); len = (size_t)u_arg(argv[2]);
		r = derTSIZEEnc(0, tag, len);
		if (r == ERR) { printf("err"); return; }
		v = out_buf(r);
		if (derTSIZEEnc(v, tag, len) != r) printf("size-mismatch"); else put_hex(v, r);
		out_free(v, r);
	}
	else if (OP("sizedec") && argc == 3)
	{
		size_t val = 0x5A5A5A5A;
		x = hex_arg(argv[1], &n);
		r = derTSIZEDec(&val, x, n, (u32)u_arg(argv[2]));
		if (r != derTSIZEDec(0, x, n, (u32)u_arg(argv[2]))) printf("null-mismatch");
		else if (r == ERR) printf("err"); else printf("%zu %zu", val, r);
		hex_free(x, n);
	}
	else if (OP("sizedec2") && argc == 4)
	{
		x = hex_arg(argv[1], &n);
		r = derTSIZEDec2(x, n, (u32)u_arg(argv[2]), (size_t)u_arg(argv[3]));
		if (r == ERR) printf("err"); else printf("%zu", r);
		hex_free(x, n);
	}
	/* ---------------------------------------------------------------- UINT */
	else if (OP("uintenc") && argc == 3)
	{
		tag = (u32)u_arg(argv[1]);
		x = hex_arg(argv[2], &n);
		if (n == 0) { printf("bad-op"); hex_free(x, n); return; }
		r = derTUINTEnc(0, tag, x, n);
		if (r == ERR) printf("err");
		else
		{
			v = out_buf(r);
			if (derTUINTEnc(v, tag, x, n) != r) printf("size-mismatch"); else put_hex(v, r);
			out_free(v, r);
		}
		hex_free(x, n);
	}
	else if (OP("uintdec") && argc == 3)
	{
		x = hex_arg(argv[1], &n);
		tag = (u32)u_arg(argv[2]);
		len = 0x5A5A5A5A;
		r = derTUINTDec(0, &len, x, n, tag);
		if (r == ERR) FAIL_NONNULL(derTUINTDec(v, &len2, x, n, tag), n + 1);
		else
		{
			size_t len2 = 0;
			v = out_buf(len);
			if (derTUINTDec(v, &len2, x, n, tag) != r || len2 != len || derTUINTDec(0, 0, x, n, tag) != r)
				printf("null-mismatch");
			else put_hex(v, len), printf(" %zu", r);
			out_free(v, len);
		}
		hex_free(x, n);
	}
	else if (OP("uintdec2") && argc == 4)
	{
		x = hex_arg(argv[1], &n);
		tag = (u32)u_arg(argv[2]); len = (size_t)u_arg(argv[3]);
		r = derTUINTDec2(0, x, n, tag, len);
		if (r == ERR) FAIL_INTO(derTUINTDec2(v, x, n, tag, len), len);
		else
		{
			v = out_buf(len);
			if (derTUINTDec2(v, x, n, tag, len) != r) printf("null-mismatch");
			else put_hex(v, len), printf(" %zu", r);
			out_free(v, len);
		}
		hex_free(x, n);
	}
	/* ---------------------------------------------------------------- BIT */
	else if (OP("bitenc") && argc == 4)
	{
		tag = (u32)u_arg(argv[1]);
		x = hex_arg(argv[2], &n);
		len = (size_t)u_arg(argv[3]);
		if (n != (len + 7) / 8) { printf("bad-op"); hex_free(x, n); return; }
		r = derTBITEnc(0, tag, x, len);
		if (r == ERR) printf("err");
		else
		{
			v = out_buf(r);
			if (derTBITEnc(v, tag, x, len) != r) printf("size-mismatch"); else put_hex(v, r);
			out_free(v, r);
		}
		hex_free(x, n);
	}
	else if (OP("bitdec") && argc == 3)
	{
		x = hex_arg(argv[1], &n);
		tag = (u32)u_arg(argv[2]);
		len = 0x5A5A5A5A;
		r = derTBITDec(0, &len, x, n, tag);
		if (r == ERR) FAIL_NONNULL(derTBITDec(v, &len2, x, n, tag), n + 1);
		else
		{
			size_t len2 = 0, vl = (len + 7) / 8;
			v = out_buf(vl);
			if (derTBITDec(v, &len2, x, n, tag) != r || len2 != len || derTBITDec(0, 0, x, n, tag) != r)
				printf("null-mismatch");
			else put_hex(v, vl), printf(" %zu %zu", len, r);
			out_free(v, vl);
		}
		hex_free(x, n);
	}
	else if (OP("bitdec2") && argc == 4)
	{
		x = hex_arg(argv[1], &n);
		tag = (u32)u_arg(argv[2]); len = (size_t)u_arg(argv[3]);
		r = derTBITDec2(0, x, n, tag, len);
		if (r == ERR) FAIL_INTO(derTBITDec2(v, x, n, tag, len), (len + 7) / 8);
		else
		{
			size_t vl = (len + 7) / 8;
			v = out_buf(vl);
			if (derTBITDec2(v, x, n, tag, len) != r) printf("null-mismatch");
			else put_hex(v, vl), printf(" %zu", r);
			out_free(v, vl);
		}
		hex_free(x, n);
	}
	/* ---------------------------------------------------------------- OCT */
	else if (OP("octdec") && argc == 3)
	{
		x = hex_arg(argv[1], &n);
		tag = (u32)u_arg(argv[2]);
		len = 0x5A5A5A5A;
		r = derTOCTDec(0, &len, x, n, tag);
		if (r == ERR) FAIL_NONNULL(derTOCTDec(v, &len2, x, n, tag), n + 1);
		else
		{
			size_t len2 = 0;
			v = out_buf(len);
			if (derTOCTDec(v, &len2, x, n, tag) != r || len2 != len) printf("null-mismatch");
			else put_hex(v, len), printf(" %zu", r);
			out_free(v, len);
		}
		hex_free(x, n);
	}
	else if (OP("octdec2") && argc == 4)
	{
		x = hex_arg(argv[1], &n);
		tag = (u32)u_arg(argv[2]); len = (size_t)u_arg(argv[3]);
		r = derTOCTDec2(0, x, n, tag, len);
		if (r == ERR) FAIL_INTO(derTOCTDec2(v, x, n, tag, len), len);
		else
		{
			v = out_buf(len);
			if (derTOCTDec2(v, x, n, tag, len) != r) printf("null-mismatch");
			else put_hex(v, len), printf(" %zu", r);
			out_free(v, len);
		}
		hex_free(x, n);
	}
	/* ---------------------------------------------------------------- PSTR */
	else if (OP("pstrenc") && argc == 3)
	{
		tag = (u32)u_arg(argv[1]);
		s = str_arg(argv[2], &n);
		if (!s) { printf("bad-op"); return; }
		r = derTPSTREnc(0, tag, s);
		if (r == ERR) printf("err");
		else
		{
			v = out_buf(r);
			if (derTPSTREnc(v, tag, s) != r) printf("size-mismatch"); else put_hex(v, r);
			out_free(v, r);
		}
		free(s);
	}
	else if (OP("pstrdec") && argc == 3)
	{
		x = hex_arg(argv[1], &n);
		tag = (u32)u_arg(argv[2]);
		len = 0x5A5A5A5A;
		r = derTPSTRDec(0, &len, x, n, tag);
		if (r == ERR) FAIL_NONNULL(derTPSTRDec((char*)v, &len2, x, n, tag), n + 2);
		else
		{
			size_t len2 = 0;
			v = out_buf(len + 1);
			if (derTPSTRDec((char*)v, &len2, x, n, tag) != r || len2 != len || v[len] != 0) printf("null-mismatch");
			else put_hex(v, len), printf(" %zu", r);
			out_free(v, len + 1);
		}
		hex_free(x, n);
	}
	/* ---------------------------------------------------------------- OID */
	else if (OP("oidvalid") && argc == 2)
	{
		s = str_arg(argv[1], &n);
		if (!s) { printf("bad-op"); return; }
		printf("%d", oidIsValid(s) ? 1 : 0);
		free(s);
	}
	else if (OP("oidenc") && argc == 2)
	{
		s = str_arg(argv[1], &n);
		if (!s) { printf("bad-op"); return; }
		r = derOIDEnc(0, s);
		if (r != oidToDER(0, s)) printf("size-mismatch");
		else if (r == ERR) printf("err");
		else
		{
			v = out_buf(r);
			if (derOIDEnc(v, s) != r) printf("size-mismatch"); else put_hex(v, r);
			out_free(v, r);
		}
		free(s);
	}
	else if (OP("oiddec") && argc == 2)
	{
		x = hex_arg(argv[1], &n);
		len = 0x5A5A5A5A;
		r = derOIDDec(0, &len, x, n);
		if (r == ERR) FAIL_NONNULL(derOIDDec((char*)v, &len2, x, n), 11 * n + 16);
		else
		{
			size_t len2 = 0;
			v = out_buf(len + 1);
			if (derOIDDec((char*)v, &len2, x, n) != r || len2 != len || v[len] != 0) printf("null-mismatch");
			else put_hex(v, len), printf(" %zu", r);
			out_free(v, len + 1);
		}
		hex_free(x, n);
	}
	else if (OP("oiddec2") && argc == 3)
	{
		x = hex_arg(argv[1], &n);
		s = str_arg(argv[2], &m);
		if (!s) { printf("bad-op"); hex_free(x, n); return; }
		r = derOIDDec2(x, n, s);
		if (r == ERR) printf("err"); else printf("%zu", r);
		free(s); hex_free(x, n);
	}
	else if (OP("oidfromder") && argc == 2)
	{
		x = hex_arg(argv[1], &n);
		r = oidFromDER(0, x, n);
		if (r == ERR) FAIL_NONNULL(oidFromDER((char*)v, x, n), 11 * n + 16);
		else
		{
			v = out_buf(r + 1);
			if (oidFromDER((char*)v, x, n) != r || v[r] != 0) printf("null-mismatch"); else put_hex(v, r);
			out_free(v, r + 1);
		}
		hex_free(x, n);
	}
	/* ---------------------------------------------------------------- SEQ anchors */
	else if (OP("seqenc") && argc == 4)
	{
		der_anchor_t a[1];
		size_t pos, c1, c2, total;
		octet* p = hex_arg(argv[1], &n);
		tag = (u32)u_arg(argv[2]);
		x = hex_arg(argv[3], &m);
		/* dry run */
		c1 = derTSEQEncStart(a, 0, n, tag);
		if (c1 == ERR) { printf("err"); hex_free(p, n); hex_free(x, m); return; }
		c2 = derTSEQEncStop(0, n + c1 + m, a);
		if (c2 == ERR) { printf("err"); hex_free(p, n); hex_free(x, m); return; }
		total = n + c1 + m + c2;
		v = out_buf(total);
		memcpy(v, p, n), pos = n;
		if (derTSEQEncStart(a, v + pos, pos, tag) != c1) { printf("size-mismatch"); return; }
		pos += c1;
		memcpy(v + pos, x, m), pos += m;
		if (derTSEQEncStop(v + pos, pos, a) != c2) { printf("size-mismatch"); return; }
		pos += c2;
		printf("%zu ", c2), put_hex(v, pos);
		out_free(v, total); hex_free(p, n); hex_free(x, m);
	}
	else if (OP("seqdec") && argc == 4)
	{
		der_anchor_t a[1];
		size_t pos = (size_t)u_arg(argv[3]);
		x = hex_arg(argv[1], &n);
		tag = (u32)u_arg(argv[2]);
		if (pos > n) { printf("bad-op"); hex_free(x, n); return; }
		r = derTSEQDecStart(a, x, n, tag);
		if (r == ERR) printf("err");
		else printf("%u %zu %zu %d", (unsigned)a->tag, a->len, r, derTSEQDecStop(x + pos, a) == 0 ? 1 : 0);
		hex_free(x, n);
	}
	/* ---------------------------------------------------------------- APDU */
	else if (OP("cmddec") && argc == 2)
	{
		x = hex_arg(argv[1], &n);
		r = apduCmdDec(0, x, n);
		if (r == ERR) FAIL_NONNULL(apduCmdDec((apdu_cmd_t*)v, x, n), sizeof(apdu_cmd_t) + n + 8);
		else
		{
			apdu_cmd_t* cmd = (apdu_cmd_t*)out_buf(r);
			if (apduCmdDec(cmd, x, n) != r || r != sizeof(apdu_cmd_t) + cmd->cdf_len) printf("null-mismatch");
			else
			{
				printf("%u %u %u %u ", cmd->cla, cmd->ins, cmd->p1, cmd->p2);
				put_hex(cmd->cdf, cmd->cdf_len);
				printf(" %zu", cmd->rdf_len);
			}
			out_free((unsigned char*)cmd, r);
		}
		hex_free(x, n);
	}
	else if (OP("cmdenc") && argc == 7)
	{
		apdu_cmd_t* cmd;
		x = hex_arg(argv[5], &n);
		cmd = (apdu_cmd_t*)out_buf(sizeof(apdu_cmd_t) + n);
		memset(cmd, 0, sizeof(apdu_cmd_t));
		cmd->cla = (octet)u_arg(argv[1]), cmd->ins = (octet)u_arg(argv[2]);
		cmd->p1 = (octet)u_arg(argv[3]), cmd->p2 = (octet)u_arg(argv[4]);
		cmd->cdf_len = n, cmd->rdf_len = (size_t)u_arg(argv[6]);
		memcpy(cmd->cdf, x, n);
		if (!apduCmdIsValid(cmd)) printf("invalid");
		else
		{
			r = apduCmdEnc(0, cmd);
			if (r == ERR) printf("err");
			else
			{
				v = out_buf(r);
				if (apduCmdEnc(v, cmd) != r) printf("size-mismatch"); else put_hex(v, r);
				out_free(v, r);
			}
		}
		out_free((unsigned char*)cmd, sizeof(apdu_cmd_t) + n); hex_free(x, n);
	}
	else if (OP("respdec") && argc == 2)
	{
		x = hex_arg(argv[1], &n);
		r = apduRespDec(0, x, n);
		if (r == ERR) FAIL_NONNULL(apduRespDec((apdu_resp_t*)v, x, n), sizeof(apdu_resp_t) + n + 8);
		else
		{
			apdu_resp_t* resp = (apdu_resp_t*)out_buf(r);
			if (apduRespDec(resp, x, n) != r || r != sizeof(apdu_resp_t) + resp->rdf_len) printf("null-mismatch");
			else
			{
				printf("%u %u ", resp->sw1, resp->sw2);
				put_hex(resp->rdf, resp->rdf_len);
			}
			out_free((unsigned char*)resp, r);
		}
		hex_free(x, n);
	}
	else if (OP("respenc") && argc == 4)
	{
		apdu_resp_t* resp;
		x = hex_arg(argv[3], &n);
		resp = (apdu_resp_t*)out_buf(sizeof(apdu_resp_t) + n);
		memset(resp, 0, sizeof(apdu_resp_t));
		resp->sw1 = (octet)u_arg(argv[1]), resp->sw2 = (octet)u_arg(argv[2]);
		resp->rdf_len = n;
		memcpy(resp->rdf, x, n);
		if (!apduRespIsValid(resp)) printf("invalid");
		else
		{
			r = apduRespEnc(0, resp);
			v = out_buf(r);
			if (apduRespEnc(v, resp) != r) printf("size-mismatch"); else put_hex(v, r);
			out_free(v, r);
		}
		out_free((unsigned char*)resp, sizeof(apdu_resp_t) + n); hex_free(x, n);
	}
	/* ---------------------------------------------------------------- hex */
	else if (OP("hexvalid") && argc == 2)
	{
		s = str_arg(argv[1], &n);
		if (!s) { printf("bad-op"); return; }
		printf("%d", hexIsValid(s) ? 1 : 0);
		free(s);
	}
	else if (OP("hexto") && argc == 2)
	{
		s = str_arg(argv[1], &n);
		if (!s) { printf("bad-op"); return; }
		if (!hexIsValid(s)) printf("invalid");
		else
		{
			v = out_buf(n / 2);
			hexTo(v, s); put_hex(v, n / 2);
			memset(v, 0xA5, n / 2);
			hexToRev(v, s); printf(" "); put_hex(v, n / 2);
			out_free(v, n / 2);
		}
		free(s);
	}
	else if (OP("hexfrom") && argc == 2)
	{
		x = hex_arg(argv[1], &n);
		v = out_buf(2 * n + 1);
		hexFrom((char*)v, x, n);
		if (v[2 * n] != 0) printf("no-nul"); else put_hex(v, 2 * n);
		memset(v, 0xA5, 2 * n + 1);
		hexFromRev((char*)v, x, n);
		printf(" ");
		if (v[2 * n] != 0) printf("no-nul"); else put_hex(v, 2 * n);
		out_free(v, 2 * n + 1); hex_free(x, n);
	}
	else if (OP("hexeq") && argc == 3)
	{
		x = hex_arg(argv[1], &n);
		s = str_arg(argv[2], &m);
		if (!s) { printf("bad-op"); hex_free(x, n); return; }
		if (!hexIsValid(s) || n != m / 2) printf("invalid");
		else
		{
			size_t i;
			v = out_buf(n);
			for (i = 0; i < n; ++i) v[i] = x[n - 1 - i];
			printf("%d %d %d %d", SAFE(hexEq)(x, s) ? 1 : 0, FAST(hexEq)(x, s) ? 1 : 0,
				SAFE(hexEqRev)(x, s) ? 1 : 0, FAST(hexEqRev)(x, s) ? 1 : 0);
			/* model: r3/r4 compare reverse(buf) with hexTo(s) */
			(void)v;
			out_free(v, n);
		}
		free(s); hex_free(x, n);
	}
	/* ---------------------------------------------------------------- b64 */
	else if (OP("b64valid") && argc == 2)
	{
		s = str_arg(argv[1], &n);
		if (!s) { printf("bad-op"); return; }
		printf("%d", b64IsValid(s) ? 1 : 0);
		free(s);
	}
	else if (OP("b64to") && argc == 2)
	{
		s = str_arg(argv[1], &n);
		if (!s) { printf("bad-op"); return; }
		if (!b64IsValid(s)) printf("invalid");
		else
		{
			size_t c = 0, c2;
			b64To(0, &c, s);
			v = out_buf(c);
			c2 = c;
			b64To(v, &c2, s);
			if (c2 != c) printf("size-mismatch"); else put_hex(v, c);
			out_free(v, c);
		}
		free(s);
	}
	else if (OP("b64from") && argc == 2)
	{
		size_t c;
		x = hex_arg(argv[1], &n);
		c = 4 * ((n + 2) / 3);
		v = out_buf(c + 1);
		b64From((char*)v, x, n);
		if (v[c] != 0) printf("no-nul"); else put_hex(v, c);
		out_free(v, c + 1); hex_free(x, n);
	}
	/* ---------------------------------------------------------------- dec */
	else if (OP("decvalid") && argc == 2)
	{
		s = str_arg(argv[1], &n);
		if (!s) { printf("bad-op"); return; }
		printf("%d", decIsValid(s) ? 1 : 0);
		free(s);
	}
	else if (OP("decto") && argc == 2)
	{
		s = str_arg(argv[1], &n);
		if (!s) { printf("bad-op"); return; }
		if (!decIsValid(s)) printf("invalid");
		else printf("%u %llu %zu", (unsigned)decToU32(s), (unsigned long long)decToU64(s), decCLZ(s));
		free(s);
	}
	else if (OP("decfrom") && argc == 3)
	{
		size_t c = (size_t)u_arg(argv[1]);
		unsigned long long num = u_arg(argv[2]);
		if (c > 64) { printf("bad-op"); return; }
		v = out_buf(c + 1);
		decFromU32((char*)v, c, (u32)num);
		if (v[c] != 0) printf("no-nul"); else put_hex(v, c);
		memset(v, 0xA5, c + 1);
		decFromU64((char*)v, c, (u64)num);
		printf(" ");
		if (v[c] != 0) printf("no-nul"); else put_hex(v, c);
		out_free(v, c + 1);
	}
	else if (OP("deccd") && argc == 2)
	{
		s = str_arg(argv[1], &n);
		if (!s) { printf("bad-op"); return; }
		if (!decIsValid(s)) printf("invalid");
		else printf("%u %d %u %d", (unsigned)(octet)decLuhnCalc(s), decLuhnVerify(s) ? 1 : 0,
			(unsigned)(octet)decDammCalc(s), decDammVerify(s) ? 1 : 0);
		free(s);
	}
	else printf("bad-op");
}

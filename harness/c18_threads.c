/* C18 real-thread stress (supporting evidence; run under ThreadSanitizer and natively).
   usage: c18_threads <mode> <threads> <rounds> <seed>
   mode once : all threads race on K fresh once-triggers (barrier before each);
               checks: initialiser ran exactly once per trigger, its effect is visible
               to every caller that returns.
   mode ctr  : threads race mtAtomicIncr/Decr on one counter; final value checked.
   mode rng  : thread 0 may call rngIsValid first; every thread runs a random sequence
               rngCreate; (StepR|StepR2|Rekey|IsValid)*; rngClose (holding a reference
               while using); checks: every request filled completely, no two 32-octet
               output blocks equal across all threads, generator closed at the end.
   Prints one line: "OK ..." or "FAIL ...".  TSan reports go to stderr. */
#include <stdio.h>
#include <stdlib.h>
#include <string.h>
#include <pthread.h>
#include <bee2/core/mt.h>
#include <bee2/core/rng.h>
#include <bee2/core/mem.h>
#include <bee2/core/err.h>

#define K 24
static size_t once_[K];
static volatile int runs_[K];
static int data_[K];
#define FN(i) static void fn##i(void) { ++runs_[i]; data_[i] = 1000 + i; }
FN(0) FN(1) FN(2) FN(3) FN(4) FN(5) FN(6) FN(7) FN(8) FN(9) FN(10) FN(11)
FN(12) FN(13) FN(14) FN(15) FN(16) FN(17) FN(18) FN(19) FN(20) FN(21) FN(22) FN(23)
static void (*fns_[K])(void) = { fn0, fn1, fn2, fn3, fn4, fn5, fn6, fn7, fn8, fn9, fn10, fn11,
	fn12, fn13, fn14, fn15, fn16, fn17, fn18, fn19, fn20, fn21, fn22, fn23 };

static int nthreads, rounds;
static unsigned seed;
static pthread_barrier_t bar;
static int fail_;
static size_t ctr_;

static void* th_once(void* arg)
{
	int k;
	for (k = 0; k < K; ++k)
	{
		pthread_barrier_wait(&bar);
		if (!mtCallOnce(once_ + k, fns_[k]) || data_[k] != 1000 + k)
			__sync_fetch_and_add(&fail_, 1);
	}
	return 0;
}

static void* th_ctr(void* arg)
{
	int i;
	pthread_barrier_wait(&bar);
	for (i = 0; i < rounds; ++i)
		mtAtomicIncr(&ctr_), mtAtomicIncr(&ctr_), mtAtomicDecr(&ctr_);
	return 0;
}

#define MAXBLK 4096
typedef struct { unsigned char b[MAXBLK][32]; int n; int id; } out_t;
static out_t* outs_;

/* additional entropy source for rngCreate(): exercises the "generator already exists" path
   that feeds the source output into the shared generator state */
static err_t src_(size_t* read, void* buf, size_t count, void* state)
{
	memset(buf, 0x3C, count);
	*read = count;
	return ERR_OK;
}

static void* th_rng(void* arg)
{
	out_t* o = (out_t*)arg;
	unsigned s = seed * 7919u + (unsigned)o->id * 104729u + 1;
	int r, i;
	pthread_barrier_wait(&bar);
	if (o->id == 0)
		(void)rngIsValid();
	for (r = 0; r < rounds; ++r)
	{
		int steps;
		if (rngCreate((o->id + r) % 2 ? src_ : 0, 0) != ERR_OK)
		{
			__sync_fetch_and_add(&fail_, 1);
			continue;
		}
		s = s * 1103515245u + 12345u;
		steps = 1 + (s >> 16) % 6;
		for (i = 0; i < steps; ++i)
		{
			unsigned char buf[96];
			size_t cnt;
			s = s * 1103515245u + 12345u;
			switch ((s >> 16) % 5)
			{
			case 0: case 1:
				cnt = 32 * (1 + (s >> 20) % 3);
				memset(buf, 0, sizeof buf);
				rngStepR2(buf, cnt, 0);
				break;
			case 2:
				cnt = 32;
				memset(buf, 0, sizeof buf);
				rngStepR(buf, cnt, 0);
				break;
			case 3:
				rngRekey();
				cnt = 0;
				break;
			default:
				if (!rngIsValid())
					__sync_fetch_and_add(&fail_, 1);
				cnt = 0;
			}
			for (; cnt >= 32 && o->n < MAXBLK; cnt -= 32)
			{
				static const unsigned char z[32];
				if (memcmp(buf + cnt - 32, z, 32) == 0)
					__sync_fetch_and_add(&fail_, 1);
				memcpy(o->b[o->n++], buf + cnt - 32, 32);
			}
		}
		rngClose();
	}
	return 0;
}

static int cmp32(const void* a, const void* b) { return memcmp(a, b, 32); }

int main(int argc, char** argv)
{
	pthread_t th[64];
	int i;
	const char* mode;
	if (argc != 5) return 2;
	mode = argv[1];
	nthreads = atoi(argv[2]), rounds = atoi(argv[3]), seed = (unsigned)atoi(argv[4]);
	if (nthreads < 1 || nthreads > 64) return 2;
	pthread_barrier_init(&bar, 0, nthreads);
	if (!strcmp(mode, "once"))
	{
		for (i = 0; i < nthreads; ++i) pthread_create(th + i, 0, th_once, 0);
		for (i = 0; i < nthreads; ++i) pthread_join(th[i], 0);
		for (i = 0; i < K; ++i)
			if (runs_[i] != 1 || once_[i] != 1) ++fail_;
		printf("%s once threads=%d triggers=%d bad=%d\n", fail_ ? "FAIL" : "OK", nthreads, K, fail_);
	}
	else if (!strcmp(mode, "ctr"))
	{
		for (i = 0; i < nthreads; ++i) pthread_create(th + i, 0, th_ctr, 0);
		for (i = 0; i < nthreads; ++i) pthread_join(th[i], 0);
		if (ctr_ != (size_t)nthreads * rounds) ++fail_;
		printf("%s ctr threads=%d rounds=%d value=%lu\n", fail_ ? "FAIL" : "OK", nthreads, rounds, (unsigned long)ctr_);
	}
	else if (!strcmp(mode, "rng"))
	{
		size_t total = 0, j, dup = 0;
		unsigned char (*all)[32];
		outs_ = (out_t*)calloc(nthreads, sizeof(out_t));
		for (i = 0; i < nthreads; ++i) outs_[i].id = i, pthread_create(th + i, 0, th_rng, outs_ + i);
		for (i = 0; i < nthreads; ++i) pthread_join(th[i], 0), total += outs_[i].n;
		all = malloc(32 * (total ? total : 1));
		for (i = 0, j = 0; i < nthreads; ++i)
			memcpy(all + j, outs_[i].b, 32 * outs_[i].n), j += outs_[i].n;
		qsort(all, total, 32, cmp32);
		for (j = 1; j < total; ++j)
			if (memcmp(all[j - 1], all[j], 32) == 0) ++dup;
		if (dup || rngIsValid()) ++fail_;
		printf("%s rng threads=%d rounds=%d blocks=%lu duplicates=%lu still_valid=%d bad=%d\n",
			fail_ ? "FAIL" : "OK", nthreads, rounds, (unsigned long)total, (unsigned long)dup, (int)rngIsValid(), fail_);
	}
	else
		return 2;
	return fail_ ? 1 : 0;
}

/* C09 harness.
   `scen <name> <var> <failat>` : scenario with the <failat>-th allocation failing (0 = none)
   `chk <function> <scalars…>`  : the function on otherwise valid inputs with the given scalar
                                  arguments -> `pass` (ERR_OK) or the err_t number
   `list` */
#include "c09_common.h"

static unsigned char BIG[1 << 16], BIG2[1 << 16], BIG3[1 << 16];
#define A(i) ((size_t)strtoull(argv[2 + (i)], 0, 10))

static void chk(int argc, char** argv)
{
	const char* f = argv[1]; int n = argc - 2; err_t code; size_t i;
	material(); bign_setup();
	for (i = 0; i < sizeof BIG; ++i) BIG[i] = (unsigned char)(i * 7 + 1);
#define IS(name, k) (strcmp(f, name) == 0 && n == (k))
	if (IS("beltECBEncr", 2)) code = beltECBEncr(BIG2, BIG, A(0), K32, A(1));
	else if (IS("beltECBDecr", 2)) code = beltECBDecr(BIG2, BIG, A(0), K32, A(1));
	else if (IS("beltCBCEncr", 2)) code = beltCBCEncr(BIG2, BIG, A(0), K32, A(1), IV16);
	else if (IS("beltCBCDecr", 2)) code = beltCBCDecr(BIG2, BIG, A(0), K32, A(1), IV16);
	else if (IS("beltCFBEncr", 2)) code = beltCFBEncr(BIG2, BIG, A(0), K32, A(1), IV16);
	else if (IS("beltCFBDecr", 2)) code = beltCFBDecr(BIG2, BIG, A(0), K32, A(1), IV16);
	else if (IS("beltCTR", 2)) code = beltCTR(BIG2, BIG, A(0), K32, A(1), IV16);
	else if (IS("beltMAC", 2)) code = beltMAC(MAC8, BIG, A(0), K32, A(1));
	else if (IS("beltBDEEncr", 2)) code = beltBDEEncr(BIG2, BIG, A(0), K32, A(1), IV16);
	else if (IS("beltBDEDecr", 2)) code = beltBDEDecr(BIG2, BIG, A(0), K32, A(1), IV16);
	else if (IS("beltSDEEncr", 2)) code = beltSDEEncr(BIG2, BIG, A(0), K32, A(1), IV16);
	else if (IS("beltSDEDecr", 2)) code = beltSDEDecr(BIG2, BIG, A(0), K32, A(1), IV16);
	else if (IS("beltKWPWrap", 2)) code = beltKWPWrap(BIG2, BIG, A(0), HDR16, K32, A(1));
	else if (IS("beltKWPUnwrap", 2))
	{
		/* a valid token of the requested size when that is possible */
		if (A(0) >= 32 && A(0) <= 4096 && (A(1) == 16 || A(1) == 24 || A(1) == 32))
			beltKWPWrap(BIG3, BIG, A(0) - 16, HDR16, K32, A(1));
		code = beltKWPUnwrap(BIG2, BIG3, A(0), HDR16, K32, A(1));
	}
	else if (IS("beltDWPWrap", 3)) code = beltDWPWrap(BIG2, MAC8, BIG, A(0), BIG + 5000, A(1), K32, A(2), IV16);
	else if (IS("beltCHEWrap", 3)) code = beltCHEWrap(BIG2, MAC8, BIG, A(0), BIG + 5000, A(1), K32, A(2), IV16);
	else if (IS("beltDWPUnwrap", 3))
	{
		if (A(0) <= 4096 && A(1) <= 4096 && (A(2) == 16 || A(2) == 24 || A(2) == 32))
			beltDWPWrap(BIG3, MAC8, BIG, A(0), BIG + 5000, A(1), K32, A(2), IV16);
		code = beltDWPUnwrap(BIG2, BIG3, A(0), BIG + 5000, A(1), MAC8, K32, A(2), IV16);
	}
	else if (IS("beltCHEUnwrap", 3))
	{
		if (A(0) <= 4096 && A(1) <= 4096 && (A(2) == 16 || A(2) == 24 || A(2) == 32))
			beltCHEWrap(BIG3, MAC8, BIG, A(0), BIG + 5000, A(1), K32, A(2), IV16);
		code = beltCHEUnwrap(BIG2, BIG3, A(0), BIG + 5000, A(1), MAC8, K32, A(2), IV16);
	}
	else if (IS("beltFMTEncr", 3) || IS("beltFMTDecr", 3))
	{
		u16* src = (u16*)BIG3; size_t m = A(0) >= 2 && A(0) <= 65536 ? A(0) : 2;
		for (i = 0; i < 700; ++i) src[i] = (u16)((i * 7) % m);
		code = f[7] == 'E' ? beltFMTEncr((u16*)BIG2, (u32)A(0), src, A(1), K32, A(2), 0)
			: beltFMTDecr((u16*)BIG2, (u32)A(0), src, A(1), K32, A(2), 0);
	}
	else if (IS("beltKRP", 2)) code = beltKRP(BIG2, A(0), K32, A(1), BIG, HDR16);
	else if (IS("beltPBKDF2", 3)) code = beltPBKDF2(BIG2, BIG, A(0), A(1), BIG + 5000, A(2));
	else if (IS("bashHash", 2)) code = bashHash(BIG2, A(0), BIG, A(1));
	else if (IS("belsStdM", 2)) code = belsStdM(BIG2, A(0), A(1));
	else if (IS("belsShare2", 3)) { tape_start(); code = belsShare2(BIG2, A(0), A(1), A(2), K32, prngEchoStepR, ECHO); }
	else if (IS("belsShare3", 3)) code = belsShare3(BIG2, A(0), A(1), A(2), K32);
	else if (IS("belsShare", 3))
	{
		size_t len = A(2);
		if ((len == 16 || len == 24 || len == 32) && A(0) <= 16)
		{
			belsStdM(BIG3, len, 0);
			for (i = 0; i < A(0); ++i) belsStdM(BIG3 + 64 + len * i, len, i + 1);
		}
		tape_start();
		code = belsShare(BIG2, A(0), A(1), len, K32, BIG3, BIG3 + 64, prngEchoStepR, ECHO);
	}
	else if (IS("belsRecover2", 2))
	{
		size_t len = A(1);
		if ((len == 16 || len == 24 || len == 32) && A(0) >= 1 && A(0) <= 16)
			belsShare3(BIG3, 16, A(0), len, K32);
		code = belsRecover2(BIG2, A(0), len, BIG3);
	}
	else if (IS("botpHOTPRand", 2)) code = botpHOTPRand(OTP, A(0), BIG, A(1), BIG + 100);
	else if (IS("botpTOTPRand", 3)) code = botpTOTPRand(OTP, A(0), BIG, A(1), (tm_time_t)A(2));
	else if (IS("bpkiPrivkeyWrap", 3)) { size_t l = 0; code = bpkiPrivkeyWrap(BIG2, &l, BIG + 9000, A(0), BIG, A(1), IV16, A(2)); }
	else if (IS("bpkiShareWrap", 3)) { size_t l = 0; memcpy(BIG3 + 1, K32, 32); BIG3[0] = 3; code = bpkiShareWrap(BIG2, &l, BIG3, A(0), BIG, A(1), IV16, A(2)); }
	else if (IS("belsValM", 1))
	{
		if (A(0) == 16 || A(0) == 24 || A(0) == 32) belsStdM(BIG3, A(0), 0);
		code = belsValM(BIG3, A(0));
	}
	else if (IS("belsGenM0", 1)) { tape_start(); code = belsGenM0(BIG2, A(0), prngEchoStepR, ECHO); }
	else if (IS("belsGenMid", 2))
	{
		if (A(0) == 16 || A(0) == 24 || A(0) == 32) belsStdM(BIG3, A(0), 0);
		code = belsGenMid(BIG2, A(0), BIG3, BIG, A(1));
	}
	else if (IS("belsRecover", 2))
	{
		size_t len = A(1), cnt = A(0);
		if ((len == 16 || len == 24 || len == 32) && cnt >= 1 && cnt <= 16)
		{
			belsStdM(BIG3, len, 0);
			for (i = 0; i < 16; ++i) belsStdM(BIG3 + 64 + len * i, len, i + 1);
			tape_start();
			belsShare(BIG3 + 2048, 16, cnt, len, K32, BIG3, BIG3 + 64, prngEchoStepR, ECHO);
		}
		code = belsRecover(BIG2, cnt, len, BIG3 + 2048, BIG3, BIG3 + 64);
	}
	else if (IS("bignKeyWrap", 1)) { tape_start(); code = bignKeyWrap(BIG2, PARAMS, BIG, A(0), HDR16, PUB, prngEchoStepR, ECHO); }
	else { printf("unknown"); return; }
	if (code == ERR_OK) printf("pass"); else printf("%u", (unsigned)code);
}

static void handle(int argc, char** argv)
{
	static int init;
	if (!init) { syms_load(); init = 1; }
	if (argc == 1 && strcmp(argv[0], "list") == 0) { do_list(); return; }
	if (argc == 4 && strcmp(argv[0], "scen") == 0) { do_scen(argv[1], atoi(argv[2]), atol(argv[3])); return; }
	if (argc >= 3 && strcmp(argv[0], "chk") == 0) { chk(argc, argv); return; }
	printf("bad-op");
}
#include "common.h"

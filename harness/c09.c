/* C09 harness.
   `scen <name> <var> <failat>` : scenario with the <failat>-th allocation failing (0 = none)
   `chk <function> <scalars…>`  : the function on otherwise valid inputs with the given scalar
                                  arguments -> `pass` (ERR_OK) or the err_t number
   `list` */
#include "c09_common.h"

static unsigned char BIG[1 << 16], BIG2[1 << 16], BIG3[1 << 16];
#define A(i) ((size_t)strtoull(argv[2 + (i)], 0, 10))

static void chk(int argc, char** argv)
{
	const char* f = argv[1]; int n = argc - 2; err_t code; size_t i;
	material(); bign_setup();
	for (i = 0; i < sizeof BIG; ++i) BIG[i] = (unsigned char)(i * 7 + 1);
#define IS(name, k) (strcmp(f, name) == 0 && n == (k))
	if (IS("beltECBEncr", 2)) code = beltECBEncr(BIG2, BIG, A(0), K32, A(1));
	else if (IS("beltECBDecr", 2)) code = beltECBDecr(BIG2, BIG, A(0), K32, A(1));
	else if (IS("beltCBCEncr", 2)) code = beltCBCEncr(BIG2, BIG, A(0), K32, A(1), IV16);
	else if (IS("beltCBCDecr", 2)) code = beltCBCDecr(BIG2, BIG, A(0), K32, A(1), IV16);
	else if (IS("beltCFBEncr", 2)) code = beltCFBEncr(BIG2, BIG, A(0), K32, A(1), IV16);
	else if (IS("beltCFBDecr", 2)) code = beltCFBDecr(BIG2, BIG, A(0), K32, A(1), IV16);
	else if (IS("beltCTR", 2)) code = beltCTR(BIG2, BIG, A(0), K32, A(1), IV16);
	else if (IS("beltMAC", 2)) code = beltMAC(MAC8, BIG, A(0), K32, A(1));
	else if (IS("beltBDEEncr", 2)) code = beltBDEEncr(BIG2, BIG, A(0), K32, A(1), IV16);
	else if (IS("beltBDEDecr", 2)) code = beltBDEDecr(BIG2, BIG, A(0), K32, A(1), IV16);
	else if (IS("beltSDEEncr", 2)) code = beltSDEEncr(BIG2, BIG, A(0), K32, A(1), IV16);
	else if (IS("beltSDEDecr", 2)) code = beltSDEDecr(BIG2, BIG, A(0), K32, A(1), IV16);
	else if (IS("beltKWPWrap", 2)) code = beltKWPWrap(BIG2, BIG, A(0), HDR16, K32, A(1));
	else if (IS("beltKWPUnwrap", 2))
	{
		/* a valid token of the requested size when that is possible */
		if (A(0) >= 32 && A(0) <= 4096 && (A(1) == 16 || A(1) == 24 || A(1) == 32))
			beltKWPWrap(BIG3, BIG, A(0) - 16, HDR16, K32, A(1));
		code = beltKWPUnwrap(BIG2, BIG3, A(0), HDR16, K32, A(1));
	}
	else if (IS("beltDWPWrap", 3)) code = beltDWPWrap(BIG2, MAC8, BIG, A(0), BIG + 5000, A(1), K32, A(2), IV16);
	else if (IS("beltCHEWrap", 3)) code = beltCHEWrap(BIG2, MAC8, BIG, A(0), BIG + 5000, A(1), K32, A(2), IV16);
	else if (IS("beltDWPUnwrap", 3))
	{
		if (A(0) <= 4096 && A(1) <= 4096 && (A(2) == 16 || A(2) == 24 || A(2) == 32))
			beltDWPWrap(BIG3, MAC8, BIG, A(0), BIG + 5000, A(1), K32, A(2), IV16);
		code = beltDWPUnwrap(BIG2, BIG3, A(0), BIG + 5000, A(1), MAC8, K32, A(2), IV16);
	}
	else if (IS("beltCHEUnwrap", 3))
	{
		if (A(0) <= 4096 && A(1) <= 4096 && (A(2) == 16 || A(2) == 24 || A(2) == 32))
			beltCHEWrap(BIG3, MAC8, BIG, A(0), BIG + 5000, A(1), K32, A(2), IV16);
		code = beltCHEUnwrap(BIG2, BIG3, A(0), BIG + 5000, A(1), MAC8, K32, A(2), IV16);
	}
	else if (IS("beltFMTEncr", 3) || IS("beltFMTDecr", 3))
	{
		u16* src = (u16*)BIG3; size_t m = A(0) >= 2 && A(0) <= 65536 ? A(0) : 2;
		for (i = 0; i < 700; ++i) src[i] = (u16)((i * 7) % m);
		code = f[7] == 'E' ? beltFMTEncr((u16*)BIG2, (u32)A(0), src, A(1), K32, A(2), 0)
			: beltFMTDecr((u16*)BIG2, (u32)A(0), src, A(1), K32, A(2), 0);
	}
	else if (IS("beltKRP", 2)) code = beltKRP(BIG2, A(0), K32, A(1), BIG, HDR16);
	else if (IS("beltPBKDF2", 3)) code = beltPBKDF2(BIG2, BIG, A(0), A(1), BIG + 5000, A(2));
	else if (IS("bashHash", 2)) code = bashHash(BIG2, A(0), BIG, A(1));
	else if (IS("belsStdM", 2)) code = belsStdM(BIG2, A(0), A(1));
	else if (IS("belsShare2", 3)) { tape_start(); code = belsShare2(BIG2, A(0), A(1), A(2), K32, prngEchoStepR, ECHO); }
	else if (IS("belsShare3", 3)) code = belsShare3(BIG2, A(0), A(1), A(2), K32);
	else if (IS("belsShare", 3))
	{
		size_t len = A(2);
		if ((len == 16 || len == 24 || len == 32) && A(0) <= 16)
		{
			belsStdM(BIG3, len, 0);
			for (i = 0; i < A(0); ++i) belsStdM(BIG3 + 64 + len * i, len, i + 1);
		}
		tape_start();
		code = belsShare(BIG2, A(0), A(1), len, K32, BIG3, BIG3 + 64, prngEchoStepR, ECHO);
	}
	else if (IS("belsRecover2", 2))
	{
		size_t len = A(1);
		if ((len == 16 || len == 24 || len == 32) && A(0) >= 1 && A(0) <= 16)
			belsShare3(BIG3, 16, A(0), len, K32);
		code = belsRecover2(BIG2, A(0), len, BIG3);
	}
	else if (IS("botpHOTPRand", 2)) code = botpHOTPRand(OTP, A(0), BIG, A(1), BIG + 100);
	else if (IS("botpTOTPRand", 3)) code = botpTOTPRand(OTP, A(0), BIG, A(1), (tm_time_t)A(2));
	else if (IS("bpkiPrivkeyWrap", 3)) { size_t l = 0; code = bpkiPrivkeyWrap(BIG2, &l, BIG + 9000, A(0), BIG, A(1), IV16, A(2)); }
	else if (IS("bpkiShareWrap", 3)) { size_t l = 0; memcpy(BIG3 + 1, K32, 32); BIG3[0] = 3; code = bpkiShareWrap(BIG2, &l, BIG3, A(0), BIG, A(1), IV16, A(2)); }
	else if (IS("belsValM", 1))
	{
		if (A(0) == 16 || A(0) == 24 || A(0) == 32) belsStdM(BIG3, A(0), 0);
		code = belsValM(BIG3, A(0));
	}
	else if (IS("belsGenM0", 1)) { tape_start(); code = belsGenM0(BIG2, A(0), prngEchoStepR, ECHO); }
	else if (IS("belsGenMid", 2))
	{
		if (A(0) == 16 || A(0) == 24 || A(0) == 32) belsStdM(BIG3, A(0), 0);
		code = belsGenMid(BIG2, A(0), BIG3, BIG, A(1));
	}
	else if (IS("belsRecover", 2))
	{
		size_t len = A(1), cnt = A(0);
		if ((len == 16 || len == 24 || len == 32) && cnt >= 1 && cnt <= 16)
		{
			belsStdM(BIG3, len, 0);
			for (i = 0; i < 16; ++i) belsStdM(BIG3 + 64 + len * i, len, i + 1);
			tape_start();
			belsShare(BIG3 + 2048, 16, cnt, len, K32, BIG3, BIG3 + 64, prngEchoStepR, ECHO);
		}
		code = belsRecover(BIG2, cnt, len, BIG3 + 2048, BIG3, BIG3 + 64);
	}
	else if (IS("bignKeyWrap", 1)) { tape_start(); code = bignKeyWrap(BIG2, PARAMS, BIG, A(0), HDR16, PUB, prngEchoStepR, ECHO); }
	else { printf("unknown"); return; }
	if (code == ERR_OK) printf("pass"); else printf("%u", (unsigned)code);
}


#ifdef C09_SCEN2
/* ------------------------------------------------------------------ boundary values of private keys and points
   `key <function> <idx>` : private key d = 0, 1, q-1, q, q+1, ff..ff  (idx 0..5; pfok: 0, 1, 2^r-1, 2^r, 2^r+1, ff..ff)
   `pt  <function> <idx>` : public key / point (0,0), (p-1,yG), (p,yG), (p+1,yG), (xG,p), valid key with one bit of y flipped,
                            G, -G, a valid public key  (idx 0..8; pfok: y = 0, p-1, p, p+1, ff..ff, -, g, -, valid)
   -> `code=<err_t> out=<0|1|2> d=<hex LE> q=<hex LE>`  /  `code=… out=… p=… a=… b=… x=… y=…` (hex LE) */
static void put_hex(const void* buf, size_t len);
static void le_add1(octet* d, size_t n) { size_t i; for (i = 0; i < n; ++i) if (++d[i]) break; }
static void le_sub1(octet* d, size_t n) { size_t i; for (i = 0; i < n; ++i) if (d[i]--) break; }
static octet KD[80], KQ[80], PX[80], PY[80], PPT[200];
static size_t mk_priv(const octet* q, size_t n, int idx, size_t rbits)
{
	memset(KD, 0, sizeof KD); memset(KQ, 0, sizeof KQ);
	if (rbits) { KQ[rbits / 8] = (octet)(1 << (rbits % 8)); }     /* bound 2^r (exclusive) */
	else memcpy(KQ, q, n);
	switch (idx)
	{
	case 0: break;
	case 1: KD[0] = 1; break;
	case 2: memcpy(KD, KQ, n + 1); le_sub1(KD, n + 1); break;
	case 3: memcpy(KD, KQ, n + 1); break;
	case 4: memcpy(KD, KQ, n + 1); le_add1(KD, n + 1); break;
	default: memset(KD, 0xFF, n); break;
	}
	return n;
}
static void put_key(err_t code, size_t n, size_t nq)
{
	printf("code=%u out=%d d=", (unsigned)code, out_state()); put_hex(KD, n); printf(" q="); put_hex(KQ, nq);
}
static void key_op(const char* f, int idx)
{
	err_t code = ERR_MAX; size_t n; size_t l = 0;
	material(); bign_setup(); oid_setup(); b96_setup(); g12_setup(); ds_setup(); pf_setup(); cvc_setup(); out_reset();
	if (strncmp(f, "bign96", 6) == 0)
	{
		n = mk_priv(P96->q, 24, idx, 0);
		if (KD[24]) { printf("skip"); return; }
		if (!strcmp(f, "bign96PubkeyCalc")) { out_add(BUF1, 48); code = bign96PubkeyCalc(BUF1, P96, KD); }
		else if (!strcmp(f, "bign96KeypairVal")) code = bign96KeypairVal(P96, KD, PUB96);
		else if (!strcmp(f, "bign96Sign")) { out_add(BUF1, 34); tape_start(); code = bign96Sign(BUF1, P96, OIDDER, OIDLEN, DATA, KD, prngEchoStepR, ECHO); }
		else if (!strcmp(f, "bign96Sign2")) { out_add(BUF1, 34); code = bign96Sign2(BUF1, P96, OIDDER, OIDLEN, DATA, KD, 0, 0); }
		else { printf("unknown"); return; }
		put_key(code, 24, 24); return;
	}
	if (strncmp(f, "pfok", 4) == 0)
	{
		size_t r = PFP->r, no = (r + 7) / 8;
		mk_priv(0, no, idx, r);
		if (idx == 5 && r % 8 == 0) { printf("skip"); return; }
		if ((idx == 3 || idx == 4) && r % 8 == 0) { printf("skip"); return; }
		if (!strcmp(f, "pfokPubkeyCalc")) { out_add(BUF1, 80); code = pfokPubkeyCalc(BUF1, PFP, KD); }
		else if (!strcmp(f, "pfokDH")) { out_add(BUF1, 32); code = pfokDH(BUF1, PFP, KD, PFY); }
		else if (!strcmp(f, "pfokMTI")) { out_add(BUF1, 32); code = pfokMTI(BUF1, PFP, KD, PFU, PFY, PFV); }
		else { printf("unknown"); return; }
		put_key(code, no, no); return;
	}
	if (!strcmp(f, "g12sSign"))
	{
		mk_priv(G12P->q, 32, idx, 0); if (KD[32]) { printf("skip"); return; }
		out_add(BUF1, 64); tape_start(); code = g12sSign(BUF1, G12P, DATA, KD, prngEchoStepR, ECHO);
		put_key(code, 32, 32); return;
	}
	if (!strcmp(f, "dstuSign"))
	{
		mk_priv(DSP->n, 21, idx, 0); if (KD[21]) { printf("skip"); return; }
		out_add(BUF1, 64); tape_start(); code = dstuSign(BUF1, DSP, 512, DATA, 32, KD, prngEchoStepR, ECHO);
		put_key(code, 21, 21); return;
	}
	mk_priv(PARAMS->q, 32, idx, 0);
	if (KD[32]) { printf("skip"); return; }
	if (!strcmp(f, "bignPubkeyCalc")) { out_add(BUF1, 64); code = bignPubkeyCalc(BUF1, PARAMS, KD); }
	else if (!strcmp(f, "bignKeypairVal")) code = bignKeypairVal(PARAMS, KD, PUB);
	else if (!strcmp(f, "bignDH")) { out_add(BUF1, 32); code = bignDH(BUF1, PARAMS, KD, PUB, 32); }
	else if (!strcmp(f, "bignSign")) { out_add(BUF1, 48); tape_start(); code = bignSign(BUF1, PARAMS, OIDDER, OIDLEN, DATA, KD, prngEchoStepR, ECHO); }
	else if (!strcmp(f, "bignSign2")) { out_add(BUF1, 48); code = bignSign2(BUF1, PARAMS, OIDDER, OIDLEN, DATA, KD, 0, 0); }
	else if (!strcmp(f, "bignKeyUnwrap"))
	{
		tape_start(); bignKeyWrap(BUF2, PARAMS, K32, 32, HDR16, PUB, prngEchoStepR, ECHO);
		out_add(BUF1, 32); code = bignKeyUnwrap(BUF1, PARAMS, BUF2, 80, HDR16, KD);
		if (code != ERR_OK && code != ERR_BAD_PRIVKEY && out_state() == 1) out_reset();    /* zeroised on a failed token: documented */
	}
	else if (!strcmp(f, "btokCVCWrap"))
	{
		memcpy(CVCX, CVC0, sizeof CVCX); CVCX->pubkey_len = 0; l = 0;
		out_add(BUF1, 400); code = btokCVCWrap(BUF1, &l, CVCX, KD, 32);
		if (code == ERR_BAD_PRIVKEY && out_state() == 2) out_reset();     /* body encoded before signing: OUTPUT_ON_ERROR */
	}
	else if (!strcmp(f, "btokCVCIss"))
	{
		memcpy(CVCX, CVC1, sizeof CVCX); l = 0;
		out_add(BUF1, 400); code = btokCVCIss(BUF1, &l, CVCX, CERT0, CERT0_LEN, KD, 32);
	}
	else { printf("unknown"); return; }
	put_key(code, 32, 32);
}
static void put_pt(err_t code, const octet* p, const octet* a, const octet* b, size_t n)
{
	printf("code=%u out=%d p=", (unsigned)code, out_state()); put_hex(p, n); printf(" a="); put_hex(a, n); printf(" b="); put_hex(b, n);
	printf(" x="); put_hex(PX, n + 1); printf(" y="); put_hex(PY, n + 1);
}
/* the nine candidate points for a prime curve (p, a, b) with base point (gx, gy) and a valid public key pub */
static int mk_pt(const octet* p, const octet* gx, const octet* gy, const octet* pub, size_t n, int idx)
{
	memset(PX, 0, sizeof PX); memset(PY, 0, sizeof PY);
	switch (idx)
	{
	case 0: break;
	case 1: memcpy(PX, p, n); le_sub1(PX, n + 1); memcpy(PY, gy, n); break;
	case 2: memcpy(PX, p, n); memcpy(PY, gy, n); break;
	case 3: memcpy(PX, p, n); le_add1(PX, n + 1); memcpy(PY, gy, n); break;
	case 4: memcpy(PX, gx, n); memcpy(PY, p, n); break;
	case 5: memcpy(PX, pub, n); memcpy(PY, pub + n, n); PY[n / 2] ^= 0x08; break;
	case 6: memcpy(PX, gx, n); memcpy(PY, gy, n); break;
	case 7: { size_t i; int br = 0; memcpy(PX, gx, n);                 /* y = p - gy */
		for (i = 0; i < n; ++i) { int d = (int)p[i] - gy[i] - br; br = d < 0; PY[i] = (octet)(d + (br ? 256 : 0)); } } break;
	default: memcpy(PX, pub, n); memcpy(PY, pub + n, n); break;
	}
	if (PX[n] || PY[n]) return 0;      /* does not fit the encoding (p + 1 with p = 2^k - 1 never happens here) */
	memcpy(PPT, PX, n); memcpy(PPT + n, PY, n);
	return 1;
}
static void pt_op(const char* f, int idx)
{
	err_t code = ERR_MAX; octet zero[64] = {0};
	material(); bign_setup(); oid_setup(); b96_setup(); g12_setup(); pf_setup(); out_reset();
	if (strncmp(f, "bign96", 6) == 0)
	{
		if (!mk_pt(P96->p, zero, P96->yG, PUB96, 24, idx)) { printf("skip"); return; }
		if (!strcmp(f, "bign96PubkeyVal")) code = bign96PubkeyVal(P96, PPT);
		else if (!strcmp(f, "bign96Verify")) code = bign96Verify(P96, OIDDER, OIDLEN, DATA, DATA + 100, PPT);
		else if (!strcmp(f, "bign96KeypairVal")) code = bign96KeypairVal(P96, PRIV96, PPT);
		else { printf("unknown"); return; }
		put_pt(code, P96->p, P96->a, P96->b, 24); return;
	}
	if (!strcmp(f, "g12sVerify"))
	{
		if (!mk_pt(G12P->p, G12P->xP, G12P->yP, G12PUB, 32, idx)) { printf("skip"); return; }
		code = g12sVerify(G12P, DATA, DATA + 100, PPT);
		put_pt(code, G12P->p, G12P->a, G12P->b, 32); return;
	}
	if (!mk_pt(PARAMS->p, zero, PARAMS->yG, PUB, 32, idx)) { printf("skip"); return; }
	if (!strcmp(f, "bignPubkeyVal")) code = bignPubkeyVal(PARAMS, PPT);
	else if (!strcmp(f, "bignKeypairVal")) code = bignKeypairVal(PARAMS, PRIV, PPT);
	else if (!strcmp(f, "bignDH")) { out_add(BUF1, 32); code = bignDH(BUF1, PARAMS, PRIV, PPT, 32); }
	else if (!strcmp(f, "bignVerify")) code = bignVerify(PARAMS, OIDDER, OIDLEN, DATA, DATA + 100, PPT);
	else if (!strcmp(f, "bignKeyWrap")) { out_add(BUF1, 80); tape_start(); code = bignKeyWrap(BUF1, PARAMS, K32, 32, HDR16, PPT, prngEchoStepR, ECHO); }
	else if (!strcmp(f, "bignIdVerify")) { id_setup(); code = bignIdVerify(PARAMS, OIDDER, OIDLEN, IDHASH, DATA, IDSIG, IDPUB, PPT); }
	else { printf("unknown"); return; }
	put_pt(code, PARAMS->p, PARAMS->a, PARAMS->b, 32);
}
#endif

static void handle(int argc, char** argv)
{
	static int init;
	if (!init) { syms_load(); init = 1; }
	if (argc == 1 && strcmp(argv[0], "list") == 0) { do_list(); return; }
	if (argc == 4 && strcmp(argv[0], "scen") == 0) { do_scen(argv[1], atoi(argv[2]), atol(argv[3])); return; }
	if (argc >= 3 && strcmp(argv[0], "chk") == 0) { chk(argc, argv); return; }
#ifdef C09_SCEN2
	if (argc == 3 && strcmp(argv[0], "key") == 0) { key_op(argv[1], atoi(argv[2])); return; }
	if (argc == 3 && strcmp(argv[0], "pt") == 0) { pt_op(argv[1], atoi(argv[2])); return; }
#endif
	printf("bad-op");
}
#include "common.h"

/* C15 harness: free/realloc snapshots scanned for secrets, per scenario (see c09_common.h);
   `wipe <size>`: what blobClose hands to the allocator (first differences of the released block,
   compared with the Lean model of memWipe/blobClose). */
#include "c09_common.h"

static unsigned char g_snap[1 << 16]; static size_t g_snap_n; static uintptr_t g_snap_p;
static void cap(const unsigned char* p, size_t n) { g_snap_n = n < sizeof g_snap ? n : sizeof g_snap; memcpy(g_snap, p, g_snap_n); }
/* capture hook used only by `wipe`: the generic interposer scans; here we need the bytes */
static int wipe_once(size_t size, unsigned char fillv, size_t* pn)
{
	blob_t b; size_t n; unsigned char* raw;
	b = blobCreate(size);
	if (!b) return 0;
	memset(b, fillv, size);
	raw = (unsigned char*)b - sizeof(size_t);
#ifdef BEE2_VERIF
	n = size + sizeof(size_t);
#else
	n = (size + sizeof(size_t) + 1023) / 1024 * 1024;
#endif
	/* the snapshot is taken from inside free(): register the block, the interposer copies it */
	g_capture = cap; g_snap_n = 0; g_snap_p = (uintptr_t)raw;
	g_on = 1; blk_clear(); blk_add(raw, n);
	blobClose(b);
	g_on = 0; g_capture = 0;
	*pn = n;
	return g_snap_n == n;
}
static void wipe_op(size_t size)
{
	/* an octet of the payload is reported stale only if it shows the fill value in EVERY one of five
	   runs with different fills (a wiped octet does so with probability ~2^-32 per position) */
	static const unsigned char F[5] = { 0xA5, 0x3C, 0xC3, 0x69, 0x5A };
	static unsigned char same[1 << 16];
	size_t i, n = 0, stale = 0, first = 0; int fill = 0, hdr, r;
	memset(same, 1, sizeof same);
	for (r = 0; r < 5; ++r)
	{
		if (!wipe_once(size, F[r], &n)) { printf("not-released"); return; }
		for (i = 0; i < n && i < sizeof same; ++i) if (g_snap[i] != F[r]) same[i] = 0;
	}
	hdr = 1;
	for (i = 0; i < sizeof(size_t); ++i) if (((unsigned char*)&size)[i] != g_snap[i]) hdr = 0;
	for (i = 0; i + 8 <= n; ++i) if (memcmp(g_snap + i, "\x5A\x5A\x5A\x5A\x5A\x5A\x5A\x5A", 8) == 0) fill = 1;
	for (i = sizeof(size_t); i < sizeof(size_t) + size && i < sizeof same; ++i)
		if (same[i]) { if (!stale) first = i; ++stale; }
	printf("len=%zu ptrmod=%u header_intact=%d fill_left=%d stale=%zu@%zu deltas=", n, (unsigned)(g_snap_p & 15), hdr, fill, stale, first);
	for (i = 0; i + 1 < n; ++i) printf("%02x", (unsigned char)(g_snap[i + 1] - g_snap[i]));
}
static void handle(int argc, char** argv)
{
	static int init;
	if (!init) { syms_load(); init = 1; }
	if (argc == 1 && strcmp(argv[0], "list") == 0) { do_list(); return; }
	if (argc == 4 && strcmp(argv[0], "scen") == 0) { do_scen(argv[1], atoi(argv[2]), atol(argv[3])); return; }
	if (argc == 2 && strcmp(argv[0], "wipe") == 0) { wipe_op((size_t)strtoull(argv[1], 0, 10)); return; }
	printf("bad-op");
}
#include "common.h"

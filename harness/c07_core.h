/* c07_core.h -- C07 harness part: CORE helpers / encoders / decoders and container-style
   functions of bee2 driven with VALID inputs where every caller-side INPUT buffer is an
   exact-size heap block and every caller-side OUTPUT buffer has EXACTLY the documented /
   reported size (co_m(n) == malloc(n ? n : 1); for n == 0 a pointer to the END of a 1-octet
   block, so that any access traps).  Wherever a function supports it, the usual TWO-PASS
   call is used: probe the length with a null output, allocate exactly, then encode / decode.
   ASan traps a one-octet overrun, the internal ASSERTs (Debug build) abort.

   Included by /verif/harness/c07.c after the bee2 headers and after c07_hl.h.

     static int c07_core(int argc, char** argv);
       argv[0] == "co", argv[1] == family name, argv[2..] == decimal parameters
       (the first one is always the PRNG seed).  Returns 0 when the family is unknown
       (prints nothing); otherwise prints (no newline) "ok" or "err <what> <code>", returns 1.

   Families (parameters after the seed; ops are listed in gen/c07_core_ops.txt):
     der-tl tag len | der-enc tag len | der-size tag val | der-uint tag len mode |
     der-bit tag bits | der-oct tag len | der-null | der-oid k narcs | der-pstr tag len |
     der-seq tag depth n len
     apdu-cmd cdf_len rdf_len | apdu-resp rdf_len
     hex-rt n | hex-valid n | b64-rt n | b64-valid n
     dec-u32 count num | dec-u64 count num | dec-check n
     str-ops n | oid-der k narcs | oid-valid
     mem-ops n | mem-move n k | mem-join n1 n2 | mem-alloc n m
     u16-ops n cnt | u32-ops n cnt | u64-ops n cnt
     ww-ops n z | ww-bits pos width | ww-shift n shift | ww-naf n w z | ww-from cnt
     zz-add n m | zz-mod n
     prng-combo n | prng-echo slen n | prng-stb n z
     blob-ops n m | obj-ops n1 n2
     bign-params-der l | btok-cvc-x pk nlen | bpki-privkey klen plen iter |
     bpki-share slen plen iter | bpki-csr
   ww-bits / ww-naf clamp width / w to the word size, so the same op list serves B_PER_W = 64
   and 32.  bpki-* ops cost 3 PBKDF2 runs of >= 10000 iterations (the API minimum) each.

   Observations on the unchanged library (no op of the list aborts):
     - objCopy() of a compound object leaves the pointer table of the NESTED object pointing
       into the source (objShiftPtrs recurses into the nested object at its old address);
       functional defect, not a bounds violation -- obj-ops does not check those pointers.
     - oid.h documents "oidFromDER(0, buf, count) octets reserved at oid" although the
       terminating zero is written too (len + 1 octets); the harness allocates len + 1.
*/
#ifndef BEE2V_C07_CORE_H
#define BEE2V_C07_CORE_H

#include <stdio.h>
#include <stdlib.h>
#include <string.h>
#include <bee2/defs.h>
#include <bee2/core/err.h>
#include <bee2/core/safe.h>
#include <bee2/core/mem.h>
#include <bee2/core/str.h>
#include <bee2/core/hex.h>
#include <bee2/core/b64.h>
#include <bee2/core/dec.h>
#include <bee2/core/oid.h>
#include <bee2/core/der.h>
#include <bee2/core/apdu.h>
#include <bee2/core/blob.h>
#include <bee2/core/obj.h>
#include <bee2/core/prng.h>
#include <bee2/core/util.h>
#include <bee2/core/word.h>
#include <bee2/core/u16.h>
#include <bee2/core/u32.h>
#include <bee2/core/u64.h>
#include <bee2/math/ww.h>
#include <bee2/math/zz.h>
#include <bee2/crypto/bign.h>
#include <bee2/crypto/btok.h>
#include <bee2/crypto/bpki.h>

/* ---------------------------------------------------------------- infrastructure */

#define CO_POOL 16384
static void* co_pool_[CO_POOL];		/* bookkeeping only (bases); never passed to the library */
static size_t co_pool_n_;

/* exact-size heap block; n == 0 -> pointer to the END of a 1-octet block */
static void* co_m(size_t n)
{
	unsigned char* p = (unsigned char*)malloc(n ? n : 1);
	if (!p || co_pool_n_ >= CO_POOL) { fprintf(stderr, "co: out of memory\n"); abort(); }
	co_pool_[co_pool_n_++] = p;
	return n ? p : p + 1;
}
static void co_free_all(void)
{
	while (co_pool_n_) free(co_pool_[--co_pool_n_]);
}

/* tiny deterministic PRNG (xorshift64*) */
static unsigned long long co_s_;
static void co_seed(size_t seed)
{
	co_s_ = 0x9E3779B97F4A7C15ull ^ ((unsigned long long)seed * 0xD1342543DE82EF95ull);
	if (!co_s_) co_s_ = 1;
}
static unsigned long long co_next(void)
{
	co_s_ ^= co_s_ >> 12, co_s_ ^= co_s_ << 25, co_s_ ^= co_s_ >> 27;
	return co_s_ * 0x2545F4914F6CDD1Dull;
}
static size_t co_below(size_t n) { return n ? (size_t)((co_next() >> 16) % n) : 0; }

static octet* co_r(size_t n)
{
	octet* p = (octet*)co_m(n);
	size_t i;
	for (i = 0; i < n; ++i) p[i] = (octet)(co_next() >> 32);
	return p;
}
static octet* co_z(size_t n)
{
	octet* p = (octet*)co_m(n);
	if (n) memset(p, 0, n);
	return p;
}
static octet* co_dup(const void* src, size_t n)
{
	octet* p = (octet*)co_m(n);
	if (n) memcpy(p, src, n);
	return p;
}
static char* co_str(const char* s) { return (char*)co_dup(s, strlen(s) + 1); }
static octet* co_hex(const char* hex)
{
	size_t n = strlen(hex) / 2, i;
	octet* p = (octet*)co_m(n);
	for (i = 0; i < n; ++i)
	{
		unsigned v;
		sscanf(hex + 2 * i, "%2x", &v);
		p[i] = (octet)v;
	}
	return p;
}
/* heap cells for out-parameters */
static size_t* co_sz(void) { size_t* p = (size_t*)co_m(sizeof(size_t)); *p = 0; return p; }
static u32* co_u32p(void) { u32* p = (u32*)co_m(sizeof(u32)); *p = 0; return p; }
static const octet** co_pp(void)
{
	const octet** p = (const octet**)co_m(sizeof(const octet*));
	*p = 0;
	return p;
}
/* random word array, exact size */
static word* co_w(size_t n)
{
	word* a = (word*)co_m(n * sizeof(word));
	size_t i;
	for (i = 0; i < n; ++i) a[i] = (word)co_next();
	return a;
}
static word* co_wdup(const word* a, size_t n) { return (word*)co_dup(a, n * sizeof(word)); }
/* exact-size COMBO state */
static void* co_combo(void)
{
	void* st = co_m(prngCOMBO_keep());
	prngCOMBOStart(st, (u32)co_next());
	return st;
}

static int co_fail(const char* what, unsigned long code)
{
	printf("err %s %lu", what, code);
	return 1;
}
#define CO_E(call, what) do { err_t e_ = (call); if (e_ != ERR_OK) return co_fail(what, (unsigned long)e_); } while (0)
#define CO_T(cond, what) do { if (!(cond)) return co_fail(what, (unsigned long)__LINE__); } while (0)
#define CO_EQ(a, b, n, what) CO_T((n) == 0 || memcmp((a), (b), (n)) == 0, what)

/* every family: int f(size_t np, const size_t* p); returns 0 on success (wrapper prints ok) */

/* ---------------------------------------------------------------- der */

static size_t co_tag_len(u32 tag)
{
	size_t n = 0;
	for (; tag; tag >>= 8) ++n;
	return n ? n : 1;
}
static u32 co_other_tag(u32 tag) { return tag == 0x04 ? 0x05 : 0x04; }

/* all proper prefixes of interest of a valid code must be rejected without over-reads */
static int co_der_trunc(const octet* der, size_t c)
{
	static const size_t ks[] = { 0, 1, 2, 3, 4, 5, 6 };
	size_t i, k;
	for (i = 0; i <= sizeof(ks) / sizeof(ks[0]); ++i)
	{
		octet* t;
		k = i < sizeof(ks) / sizeof(ks[0]) ? ks[i] : c - 1;
		if (c == 0 || k >= c) continue;
		t = co_dup(der, k);
		CO_T(derIsValid(t, k) == FALSE, "trunc-derIsValid");
		CO_T(derDec(0, 0, 0, t, k) == SIZE_MAX, "trunc-derDec");
		(void)derTLDec(0, 0, t, k);
		(void)derStartsWith(t, k, 0x30);
	}
	return 0;
}

/* der-tl seed tag len */
static int co_der_tl(size_t np, const size_t* p)
{
	u32 tag = (u32)p[1], *ptag = co_u32p();
	size_t len = p[2], c, tc, *plen = co_sz();
	octet *der, *t;
	co_seed(p[0]);
	c = derTLEnc(0, tag, len);
	CO_T(c != SIZE_MAX, "derTLEnc-len");
	der = (octet*)co_m(c);
	CO_T(derTLEnc(der, tag, len) == c, "derTLEnc");
	CO_T(derTLDec(0, 0, der, c) == c, "derTLDec-00");
	CO_T(derTLDec(ptag, 0, der, c) == c && *ptag == tag, "derTLDec-t0");
	CO_T(derTLDec(0, plen, der, c) == c && *plen == len, "derTLDec-0l");
	*ptag = 0, *plen = 0;
	CO_T(derTLDec(ptag, plen, der, c) == c && *ptag == tag && *plen == len, "derTLDec");
	CO_T(derStartsWith(der, c, tag) == TRUE, "derStartsWith");
	tc = co_tag_len(tag);
	CO_T(tc < c, "tag-len");
	t = co_dup(der, tc);
	CO_T(derStartsWith(t, tc, tag) == TRUE, "derStartsWith-T");
	CO_T(derTLDec(0, 0, t, tc) == SIZE_MAX, "derTLDec-T");
	if (tc > 1)
	{
		t = co_dup(der, tc - 1);
		CO_T(derStartsWith(t, tc - 1, tag) == FALSE, "derStartsWith-T1");
	}
	t = co_dup(der, c - 1);
	CO_T(derTLDec(ptag, plen, t, c - 1) == SIZE_MAX, "derTLDec-trunc");
	if (len == 0)
		CO_T(derIsValid(der, c) == TRUE && derIsValid2(der, c, tag) == TRUE, "derIsValid-empty");
	return 0;
}

/* der-enc seed tag len */
static int co_der_enc(size_t np, const size_t* p)
{
	u32 tag = (u32)p[1], *ptag = co_u32p();
	size_t len = p[2], c, tl, *plen = co_sz();
	const octet** pval = co_pp();
	octet *val, *der, *b;
	co_seed(p[0]);
	val = co_r(len);
	c = derEnc(0, tag, 0, len);
	CO_T(c != SIZE_MAX, "derEnc-len0");
	CO_T(derEnc(0, tag, val, len) == c, "derEnc-len");
	tl = derTLEnc(0, tag, len);
	CO_T(tl != SIZE_MAX && tl + len == c, "derEnc-tl");
	der = (octet*)co_m(c);
	CO_T(derEnc(der, tag, val, len) == c, "derEnc");
	CO_EQ(der + tl, val, len, "derEnc-v");
	CO_T(derIsValid(der, c) == TRUE, "derIsValid");
	CO_T(derIsValid2(der, c, tag) == TRUE, "derIsValid2");
	CO_T(derIsValid2(der, c, co_other_tag(tag)) == FALSE, "derIsValid2-other");
	CO_T(derStartsWith(der, c, tag) == TRUE, "derStartsWith");
	CO_T(derStartsWith(der, c, co_other_tag(tag)) == FALSE, "derStartsWith-other");
	CO_T(derTLDec(ptag, plen, der, c) == tl && *ptag == tag && *plen == len, "derTLDec");
	CO_T(derDec(0, 0, 0, der, c) == c, "derDec-000");
	*ptag = 0, *plen = 0;
	CO_T(derDec(ptag, 0, 0, der, c) == c && *ptag == tag, "derDec-t");
	CO_T(derDec(0, pval, 0, der, c) == c && *pval == der + tl, "derDec-v");
	CO_T(derDec(0, 0, plen, der, c) == c && *plen == len, "derDec-l");
	*ptag = 0, *plen = 0, *pval = 0;
	CO_T(derDec(ptag, pval, plen, der, c) == c && *ptag == tag && *pval == der + tl &&
		*plen == len, "derDec");
	*plen = 0, *pval = 0;
	CO_T(derDec2(pval, plen, der, c, tag) == c && *pval == der + tl && *plen == len, "derDec2");
	CO_T(derDec2(0, 0, der, c, tag) == c, "derDec2-00");
	CO_T(derDec2(pval, plen, der, c, co_other_tag(tag)) == SIZE_MAX, "derDec2-other");
	*pval = 0;
	CO_T(derDec3(pval, der, c, tag, len) == c && *pval == der + tl, "derDec3");
	CO_T(derDec3(0, der, c, tag, len) == c, "derDec3-0");
	CO_T(derDec3(pval, der, c, tag, len + 1) == SIZE_MAX, "derDec3-len");
	CO_T(derDec4(der, c, tag, val, len) == c, "derDec4");
	if (len)
	{
		b = co_dup(val, len);
		b[co_below(len)] ^= 0x10;
		CO_T(derDec4(der, c, tag, b, len) == SIZE_MAX, "derDec4-diff");
		b = co_dup(val, len - 1);
		CO_T(derDec4(der, c, tag, b, len - 1) == SIZE_MAX, "derDec4-short");
	}
	/* overlapping buffers: val in the head / in the tail of der */
	b = (octet*)co_m(c);
	if (len) memcpy(b, val, len);
	CO_T(derEnc(b, tag, b, len) == c, "derEnc-inplace-head");
	CO_EQ(b, der, c, "derEnc-inplace-head-eq");
	b = (octet*)co_m(c);
	if (len) memcpy(b + c - len, val, len);
	CO_T(derEnc(b, tag, b + c - len, len) == c, "derEnc-inplace-tail");
	CO_EQ(b, der, c, "derEnc-inplace-tail-eq");
	/* a code followed by other data: exact length is determined */
	b = (octet*)co_m(c + 3);
	memcpy(b, der, c), b[c] = 0x05, b[c + 1] = 0, b[c + 2] = 0xFF;
	CO_T(derDec(0, 0, 0, b, c + 3) == c, "derDec-prefix");
	CO_T(derIsValid(b, c + 3) == FALSE, "derIsValid-suffix");
	return co_der_trunc(der, c);
}

/* der-size seed tag val */
static int co_der_size(size_t np, const size_t* p)
{
	u32 tag = (u32)p[1];
	size_t val = p[2], c, *pv = co_sz();
	octet* der;
	co_seed(p[0]);
	c = derTSIZEEnc(0, tag, val);
	CO_T(c != SIZE_MAX, "derTSIZEEnc-len");
	der = (octet*)co_m(c);
	CO_T(derTSIZEEnc(der, tag, val) == c, "derTSIZEEnc");
	CO_T(derIsValid2(der, c, tag) == TRUE, "derIsValid2");
	CO_T(derTSIZEDec(0, der, c, tag) == c, "derTSIZEDec-0");
	*pv = ~val;
	CO_T(derTSIZEDec(pv, der, c, tag) == c && *pv == val, "derTSIZEDec");
	CO_T(derTSIZEDec(pv, der, c, co_other_tag(tag)) == SIZE_MAX, "derTSIZEDec-other");
	CO_T(derTSIZEDec2(der, c, tag, val) == c, "derTSIZEDec2");
	CO_T(derTSIZEDec2(der, c, tag, val ^ 1) == SIZE_MAX, "derTSIZEDec2-diff");
	if (tag == 0x02)
	{
		CO_T(derSIZEEnc(0, val) == c, "derSIZEEnc");
		CO_T(derSIZEDec(pv, der, c) == c && *pv == val, "derSIZEDec");
		CO_T(derSIZEDec2(der, c, val) == c, "derSIZEDec2");
	}
	/* truncated codes */
	{
		size_t k;
		for (k = 0; k < c; ++k)
		{
			octet* t = co_dup(der, k);
			CO_T(derTSIZEDec(pv, t, k, tag) == SIZE_MAX, "derTSIZEDec-trunc");
		}
	}
	return 0;
}

/* der-uint seed tag len mode ; len > 0
   mode: 0 top octet in 01..7F | 1 top bit set | 2 leading zero octets (random count) |
         3 zero | 4 top octet 7F | 5 top octet 80 | 6 top octet FF | 7 top octet 00, next 80+ */
static int co_der_uint(size_t np, const size_t* p)
{
	u32 tag = (u32)p[1];
	size_t len = p[2], mode = p[3], sig, c, c0, *plen = co_sz(), *plen1 = co_sz();
	octet *val, *der, *v, *b;
	co_seed(p[0]);
	CO_T(len > 0, "bad-len");
	val = co_r(len);
	switch (mode)
	{
	case 0: val[len - 1] = (octet)(1 + co_below(0x7F)); break;
	case 1: val[len - 1] |= 0x80; break;
	case 2: { size_t k = 1 + co_below(len); memset(val + len - k, 0, k);
		if (len > k) val[len - k - 1] |= 1; } break;
	case 3: memset(val, 0, len); break;
	case 4: val[len - 1] = 0x7F; break;
	case 5: val[len - 1] = 0x80; break;
	case 6: val[len - 1] = 0xFF; break;
	default: val[len - 1] = 0; if (len > 1) val[len - 2] |= 0x80; break;
	}
	for (sig = len; sig > 1 && val[sig - 1] == 0; --sig);
	/* pass 1, pass 2 */
	c = derTUINTEnc(0, tag, val, len);
	CO_T(c != SIZE_MAX, "derTUINTEnc-len");
	c0 = derTLEnc(0, tag, sig + (val[sig - 1] >> 7));
	CO_T(c0 != SIZE_MAX && c == c0 + sig + (val[sig - 1] >> 7), "derTUINTEnc-count");
	der = (octet*)co_m(c);
	CO_T(derTUINTEnc(der, tag, val, len) == c, "derTUINTEnc");
	CO_T(derIsValid2(der, c, tag) == TRUE, "derIsValid2");
	/* decode: probe the length, allocate exactly, decode */
	CO_T(derTUINTDec(0, 0, der, c, tag) == c, "derTUINTDec-00");
	CO_T(derTUINTDec(0, plen, der, c, tag) == c, "derTUINTDec-len");
	CO_T(*plen == sig, "derTUINTDec-len-val");
	v = (octet*)co_m(*plen);
	CO_T(derTUINTDec(v, plen1, der, c, tag) == c, "derTUINTDec");
	CO_T(*plen1 == *plen, "derTUINTDec-len2");
	CO_EQ(v, val, sig, "derTUINTDec-val");
	v = (octet*)co_m(sig);
	CO_T(derTUINTDec(v, 0, der, c, tag) == c, "derTUINTDec-v0");
	CO_EQ(v, val, sig, "derTUINTDec-v0-val");
	CO_T(derTUINTDec(v, plen, der, c, co_other_tag(tag)) == SIZE_MAX, "derTUINTDec-other");
	/* decode with the expected length */
	v = (octet*)co_m(sig);
	CO_T(derTUINTDec2(v, der, c, tag, sig) == c, "derTUINTDec2");
	CO_EQ(v, val, sig, "derTUINTDec2-val");
	CO_T(derTUINTDec2(0, der, c, tag, sig) == c, "derTUINTDec2-0");
	CO_T(derTUINTDec2(0, der, c, tag, sig + 1) == SIZE_MAX, "derTUINTDec2-len");
	if (tag == 0x02)
	{
		CO_T(derUINTEnc(0, val, len) == c, "derUINTEnc");
		v = (octet*)co_m(sig);
		CO_T(derUINTDec(v, plen, der, c) == c && *plen == sig, "derUINTDec");
		v = (octet*)co_m(sig);
		CO_T(derUINTDec2(v, der, c, sig) == c, "derUINTDec2");
	}
	/* val may overlap der: decode into the code itself */
	b = co_dup(der, c);
	CO_T(derTUINTDec(b, plen, b, c, tag) == c && *plen == sig, "derTUINTDec-inplace");
	CO_EQ(b, val, sig, "derTUINTDec-inplace-val");
	b = co_dup(der, c);
	CO_T(derTUINTDec2(b, b, c, tag, sig) == c, "derTUINTDec2-inplace");
	CO_EQ(b, val, sig, "derTUINTDec2-inplace-val");
	/* der may overlap val: encode in place */
	if (c >= len)
	{
		b = (octet*)co_m(c);
		memcpy(b, val, len);
		CO_T(derTUINTEnc(b, tag, b, len) == c, "derTUINTEnc-inplace");
		CO_EQ(b, der, c, "derTUINTEnc-inplace-eq");
		b = (octet*)co_m(c);
		memcpy(b + c - len, val, len);
		CO_T(derTUINTEnc(b, tag, b + c - len, len) == c, "derTUINTEnc-inplace-tail");
		CO_EQ(b, der, c, "derTUINTEnc-inplace-tail-eq");
	}
	/* truncated codes */
	{
		size_t k;
		for (k = 0; k < c; k = (k < 8 || k + 8 >= c) ? k + 1 : c - 8)
		{
			octet* t = co_dup(der, k);
			CO_T(derTUINTDec(0, plen, t, k, tag) == SIZE_MAX, "derTUINTDec-trunc");
		}
	}
	return 0;
}

/* der-bit seed tag bits */
static int co_der_bit(size_t np, const size_t* p)
{
	u32 tag = (u32)p[1];
	size_t bits = p[2], n = (bits + 7) / 8, c, *plen = co_sz(), *plen1 = co_sz();
	octet *val, *ref, *der, *v, *b;
	co_seed(p[0]);
	val = co_r(n);
	ref = co_dup(val, n);
	if (bits % 8) ref[n - 1] &= (octet)(0xFF << (8 - bits % 8));
	c = derTBITEnc(0, tag, val, bits);
	CO_T(c != SIZE_MAX, "derTBITEnc-len");
	CO_T(c == derTLEnc(0, tag, n + 1) + n + 1, "derTBITEnc-count");
	der = (octet*)co_m(c);
	CO_T(derTBITEnc(der, tag, val, bits) == c, "derTBITEnc");
	CO_T(derIsValid2(der, c, tag) == TRUE, "derIsValid2");
	CO_T(derTBITDec(0, 0, der, c, tag) == c, "derTBITDec-00");
	CO_T(derTBITDec(0, plen, der, c, tag) == c && *plen == bits, "derTBITDec-len");
	v = (octet*)co_m((*plen + 7) / 8);
	CO_T(derTBITDec(v, plen1, der, c, tag) == c && *plen1 == bits, "derTBITDec");
	CO_EQ(v, ref, n, "derTBITDec-val");
	v = (octet*)co_m(n);
	CO_T(derTBITDec(v, 0, der, c, tag) == c, "derTBITDec-v0");
	CO_EQ(v, ref, n, "derTBITDec-v0-val");
	v = (octet*)co_m(n);
	CO_T(derTBITDec2(v, der, c, tag, bits) == c, "derTBITDec2");
	CO_EQ(v, ref, n, "derTBITDec2-val");
	CO_T(derTBITDec2(0, der, c, tag, bits) == c, "derTBITDec2-0");
	CO_T(derTBITDec2(0, der, c, tag, bits + 1) == SIZE_MAX, "derTBITDec2-len");
	CO_T(derTBITDec(0, plen, der, c, co_other_tag(tag)) == SIZE_MAX, "derTBITDec-other");
	if (tag == 0x03)
	{
		CO_T(derBITEnc(0, val, bits) == c, "derBITEnc");
		v = (octet*)co_m(n);
		CO_T(derBITDec(v, plen, der, c) == c && *plen == bits, "derBITDec");
		v = (octet*)co_m(n);
		CO_T(derBITDec2(v, der, c, bits) == c, "derBITDec2");
	}
	/* overlaps */
	b = co_dup(der, c);
	CO_T(derTBITDec(b, plen, b, c, tag) == c && *plen == bits, "derTBITDec-inplace");
	CO_EQ(b, ref, n, "derTBITDec-inplace-val");
	b = co_dup(der, c);
	CO_T(derTBITDec2(b, b, c, tag, bits) == c, "derTBITDec2-inplace");
	CO_EQ(b, ref, n, "derTBITDec2-inplace-val");
	b = (octet*)co_m(c);
	if (n) memcpy(b, val, n);
	CO_T(derTBITEnc(b, tag, b, bits) == c, "derTBITEnc-inplace");
	CO_EQ(b, der, c, "derTBITEnc-inplace-eq");
	b = (octet*)co_m(c);
	if (n) memcpy(b + c - n, val, n);
	CO_T(derTBITEnc(b, tag, b + c - n, bits) == c, "derTBITEnc-inplace-tail");
	CO_EQ(b, der, c, "derTBITEnc-inplace-tail-eq");
	{
		size_t k;
		for (k = 0; k < c; k = (k < 8 || k + 8 >= c) ? k + 1 : c - 8)
		{
			octet* t = co_dup(der, k);
			CO_T(derTBITDec(0, plen, t, k, tag) == SIZE_MAX, "derTBITDec-trunc");
		}
	}
	return 0;
}

/* der-oct seed tag len */
static int co_der_oct(size_t np, const size_t* p)
{
	u32 tag = (u32)p[1];
	size_t len = p[2], c, *plen = co_sz(), *plen1 = co_sz();
	octet *val, *der, *v, *b;
	co_seed(p[0]);
	val = co_r(len);
	c = derTOCTEnc(0, tag, val, len);
	CO_T(c != SIZE_MAX, "derTOCTEnc-len");
	der = (octet*)co_m(c);
	CO_T(derTOCTEnc(der, tag, val, len) == c, "derTOCTEnc");
	CO_T(derTOCTDec(0, 0, der, c, tag) == c, "derTOCTDec-00");
	CO_T(derTOCTDec(0, plen, der, c, tag) == c && *plen == len, "derTOCTDec-len");
	v = (octet*)co_m(*plen);
	CO_T(derTOCTDec(v, plen1, der, c, tag) == c && *plen1 == len, "derTOCTDec");
	CO_EQ(v, val, len, "derTOCTDec-val");
	v = (octet*)co_m(len);
	CO_T(derTOCTDec(v, 0, der, c, tag) == c, "derTOCTDec-v0");
	CO_EQ(v, val, len, "derTOCTDec-v0-val");
	v = (octet*)co_m(len);
	CO_T(derTOCTDec2(v, der, c, tag, len) == c, "derTOCTDec2");
	CO_EQ(v, val, len, "derTOCTDec2-val");
	CO_T(derTOCTDec2(0, der, c, tag, len) == c, "derTOCTDec2-0");
	CO_T(derTOCTDec2(0, der, c, tag, len + 1) == SIZE_MAX, "derTOCTDec2-len");
	CO_T(derTOCTDec3(der, c, tag, val, len) == c, "derTOCTDec3");
	CO_T(derTOCTDec(0, plen, der, c, co_other_tag(tag)) == SIZE_MAX, "derTOCTDec-other");
	if (tag == 0x04)
	{
		CO_T(derOCTEnc(0, val, len) == c, "derOCTEnc");
		v = (octet*)co_m(len);
		CO_T(derOCTDec(v, plen, der, c) == c && *plen == len, "derOCTDec");
		v = (octet*)co_m(len);
		CO_T(derOCTDec2(v, der, c, len) == c, "derOCTDec2");
		CO_T(derOCTDec3(der, c, val, len) == c, "derOCTDec3");
	}
	b = co_dup(der, c);
	CO_T(derTOCTDec(b, plen, b, c, tag) == c && *plen == len, "derTOCTDec-inplace");
	CO_EQ(b, val, len, "derTOCTDec-inplace-val");
	b = co_dup(der, c);
	CO_T(derTOCTDec2(b, b, c, tag, len) == c, "derTOCTDec2-inplace");
	CO_EQ(b, val, len, "derTOCTDec2-inplace-val");
	{
		size_t k;
		for (k = 0; k < c; k = (k < 8 || k + 8 >= c) ? k + 1 : c - 8)
		{
			octet* t = co_dup(der, k);
			CO_T(derTOCTDec(0, plen, t, k, tag) == SIZE_MAX, "derTOCTDec-trunc");
		}
	}
	return 0;
}

/* der-null seed */
static int co_der_null(size_t np, const size_t* p)
{
	size_t c;
	octet *der, *t;
	co_seed(p[0]);
	c = derNULLEnc(0);
	CO_T(c == 2, "derNULLEnc-len");
	der = (octet*)co_m(c);
	CO_T(derNULLEnc(der) == c, "derNULLEnc");
	CO_T(der[0] == 0x05 && der[1] == 0, "derNULLEnc-val");
	CO_T(derNULLDec(der, c) == c, "derNULLDec");
	CO_T(derIsValid2(der, c, 0x05) == TRUE, "derIsValid2");
	t = co_dup(der, 1);
	CO_T(derNULLDec(t, 1) == SIZE_MAX, "derNULLDec-trunc");
	t = (octet*)co_m(0);
	CO_T(derNULLDec(t, 0) == SIZE_MAX, "derNULLDec-empty");
	return 0;
}

/* OID strings: k < table size -> table entry, otherwise a random OID of narcs arcs */
static const char* co_oids_[] = {
	"0.0", "0.39", "1.0", "1.39", "2.0", "2.39", "2.40", "2.47", "2.48", "2.175", "2.176",
	"2.999.3", "2.999.4294967295", "2.4294967215", "2.4294967215.4294967295",
	"0.39.4294967295", "1.39.0.0.0.0", "1.2.840.113549", "1.2.112.0.2.0.34.101.45.3.1",
	"1.2.112.0.2.0.34.101.31.81",
	"2.16303.16304.2097071.2097072.268435375.268435376",
	"0.0.127.128.16383.16384.2097151.2097152.268435455.268435456.4294967295",
	"2.4294967215.4294967295.4294967295.4294967295.4294967295.4294967295.4294967295.4294967295",
	"1.0.4294967295.0.4294967295.1.4294967294.10.100.1000.10000.100000.1000000.10000000",
};
#define CO_NOIDS (sizeof(co_oids_) / sizeof(co_oids_[0]))

static u32 co_arc(void)
{
	size_t bits = co_below(33);
	u32 v = (u32)co_next();
	return bits == 0 ? 0 : (bits == 32 ? v | 0x80000000u : (v & ((1u << bits) - 1)) | (1u << (bits - 1)));
}
static char* co_oid(size_t k, size_t narcs)
{
	char tmp[32], *s;
	size_t i, pos = 0;
	u32 d1;
	if (k < CO_NOIDS) return co_str(co_oids_[k]);
	if (narcs < 2) narcs = 2;
	s = (char*)malloc(11 * narcs + 1);	/* scratch, copied to an exact block below */
	d1 = (u32)co_below(3);
	pos += (size_t)sprintf(s + pos, "%u", (unsigned)d1);
	for (i = 1; i < narcs; ++i)
	{
		u32 v = co_arc();
		if (i == 1 && d1 < 2) v = (u32)co_below(40);
		if (i == 1 && d1 == 2 && v > 4294967215u) v = 4294967215u;
		sprintf(tmp, ".%u", (unsigned)v);
		strcpy(s + pos, tmp), pos += strlen(tmp);
	}
	{
		char* r = co_str(s);
		free(s);
		return r;
	}
}

/* der-oid seed k narcs */
static int co_der_oid(size_t np, const size_t* p)
{
	size_t c, l, *plen = co_sz();
	char *s, *o, *s2;
	octet *der, *t;
	co_seed(p[0]);
	s = co_oid(p[1], p[2]);
	l = strlen(s);
	CO_T(oidIsValid(s) == TRUE, "oidIsValid");
	c = derOIDEnc(0, s);
	CO_T(c != SIZE_MAX, "derOIDEnc-len");
	der = (octet*)co_m(c);
	CO_T(derOIDEnc(der, s) == c, "derOIDEnc");
	CO_T(derIsValid2(der, c, 0x06) == TRUE, "derIsValid2");
	CO_T(derOIDDec(0, 0, der, c) == c, "derOIDDec-00");
	CO_T(derOIDDec(0, plen, der, c) == c, "derOIDDec-len");
	CO_T(*plen == l, "derOIDDec-len-val");
	o = (char*)co_m(*plen + 1);
	*plen = 0;
	CO_T(derOIDDec(o, plen, der, c) == c && *plen == l, "derOIDDec");
	CO_T(strcmp(o, s) == 0, "derOIDDec-val");
	o = (char*)co_m(l + 1);
	CO_T(derOIDDec(o, 0, der, c) == c, "derOIDDec-o0");
	CO_T(strcmp(o, s) == 0, "derOIDDec-o0-val");
	CO_T(derOIDDec2(der, c, s) == c, "derOIDDec2");
	/* different identifiers: last digit changed / one more arc / last arc dropped / prefix */
	s2 = co_str(s);
	s2[l - 1] = (char)('0' + (s2[l - 1] - '0' + 1) % 10);
	CO_T(derOIDDec2(der, c, s2) == SIZE_MAX, "derOIDDec2-digit");
	s2 = (char*)co_m(l + 3);
	memcpy(s2, s, l), memcpy(s2 + l, ".1", 3);
	CO_T(derOIDDec2(der, c, s2) == SIZE_MAX, "derOIDDec2-longer");
	s2 = (char*)co_m(l + 2);
	memcpy(s2, s, l), memcpy(s2 + l, "0", 2);
	CO_T(derOIDDec2(der, c, s2) == SIZE_MAX, "derOIDDec2-digit-more");
	if (strchr(s + 2, '.'))
	{
		size_t m = (size_t)(strrchr(s, '.') - s);
		s2 = (char*)co_m(m + 1);
		memcpy(s2, s, m), s2[m] = 0;
		CO_T(derOIDDec2(der, c, s2) == SIZE_MAX, "derOIDDec2-shorter");
	}
	if (l > 3)
	{
		s2 = (char*)co_m(l);
		memcpy(s2, s, l - 1), s2[l - 1] = 0;
		if (s2[l - 2] != '.')
			CO_T(derOIDDec2(der, c, s2) == SIZE_MAX, "derOIDDec2-cut");
	}
	{
		size_t k;
		for (k = 0; k < c; ++k)
		{
			t = co_dup(der, k);
			CO_T(derOIDDec(0, plen, t, k) == SIZE_MAX, "derOIDDec-trunc");
			CO_T(derOIDDec2(t, k, s) == SIZE_MAX, "derOIDDec2-trunc");
		}
	}
	return 0;
}

static char* co_pstr(size_t len)
{
	static const char abc[] =
		"ABCDEFGHIJKLMNOPQRSTUVWXYZabcdefghijklmnopqrstuvwxyz0123456789 '()+,-./:=?";
	char* s = (char*)co_m(len + 1);
	size_t i;
	for (i = 0; i < len; ++i) s[i] = abc[co_below(sizeof(abc) - 1)];
	s[len] = 0;
	return s;
}

/* der-pstr seed tag len */
static int co_der_pstr(size_t np, const size_t* p)
{
	u32 tag = (u32)p[1];
	size_t len = p[2], c, *plen = co_sz(), *plen1 = co_sz();
	char *s, *v;
	octet *der, *b;
	co_seed(p[0]);
	s = co_pstr(len);
	CO_T(strIsPrintable(s) == TRUE, "strIsPrintable");
	c = derTPSTREnc(0, tag, s);
	CO_T(c != SIZE_MAX, "derTPSTREnc-len");
	der = (octet*)co_m(c);
	CO_T(derTPSTREnc(der, tag, s) == c, "derTPSTREnc");
	CO_T(derIsValid2(der, c, tag) == TRUE, "derIsValid2");
	CO_T(derTPSTRDec(0, 0, der, c, tag) == c, "derTPSTRDec-00");
	CO_T(derTPSTRDec(0, plen, der, c, tag) == c && *plen == len, "derTPSTRDec-len");
	v = (char*)co_m(*plen + 1);
	CO_T(derTPSTRDec(v, plen1, der, c, tag) == c && *plen1 == len, "derTPSTRDec");
	CO_T(strcmp(v, s) == 0, "derTPSTRDec-val");
	v = (char*)co_m(len + 1);
	CO_T(derTPSTRDec(v, 0, der, c, tag) == c, "derTPSTRDec-v0");
	CO_T(strcmp(v, s) == 0, "derTPSTRDec-v0-val");
	CO_T(derTPSTRDec(0, plen, der, c, co_other_tag(tag)) == SIZE_MAX, "derTPSTRDec-other");
	if (tag == 0x13)
	{
		CO_T(derPSTREnc(0, s) == c, "derPSTREnc");
		v = (char*)co_m(len + 1);
		CO_T(derPSTRDec(v, plen, der, c) == c && *plen == len, "derPSTRDec");
	}
	/* val may overlap der (the code is at least len + 2 octets long) */
	b = co_dup(der, c);
	CO_T(derTPSTRDec((char*)b, plen, b, c, tag) == c && *plen == len, "derTPSTRDec-inplace");
	CO_T(strcmp((char*)b, s) == 0, "derTPSTRDec-inplace-val");
	/* a non-printable character is rejected */
	if (len)
	{
		b = co_dup(der, c);
		b[c - 1 - co_below(len)] = '*';
		CO_T(derTPSTRDec(0, plen, b, c, tag) == SIZE_MAX, "derTPSTRDec-bad");
	}
	{
		size_t k;
		for (k = 0; k < c; k = (k < 8 || k + 8 >= c) ? k + 1 : c - 8)
		{
			octet* t = co_dup(der, k);
			CO_T(derTPSTRDec(0, plen, t, k, tag) == SIZE_MAX, "derTPSTRDec-trunc");
		}
	}
	return 0;
}

/* nested TSEQ(tag) x depth around n OCTET STRINGs [len]item, a NULL closes every level */
static size_t co_seq_enc(octet* der, size_t pos0, u32 tag, size_t depth, size_t n, size_t len,
	const octet* item, der_anchor_t* anchors)
{
	size_t count = 0, t, i;
	if (depth == 0)
	{
		for (i = 0; i < n; ++i)
		{
			t = derOCTEnc(der ? der + count : 0, item, len);
			if (t == SIZE_MAX) return SIZE_MAX;
			count += t;
		}
		return count;
	}
	t = derTSEQEncStart(anchors + depth - 1, der ? der + count : 0, pos0 + count, tag);
	if (t == SIZE_MAX) return SIZE_MAX;
	count += t;
	t = co_seq_enc(der ? der + count : 0, pos0 + count, tag, depth - 1, n, len, item, anchors);
	if (t == SIZE_MAX) return SIZE_MAX;
	count += t;
	t = derNULLEnc(der ? der + count : 0);
	if (t == SIZE_MAX) return SIZE_MAX;
	count += t;
	t = derTSEQEncStop(der ? der + count : 0, pos0 + count, anchors + depth - 1);
	if (t == SIZE_MAX) return SIZE_MAX;
	count += t;
	return count;
}
static size_t co_seq_dec(const octet* der, size_t count, u32 tag, size_t depth, size_t n,
	size_t len, const octet* item, der_anchor_t* anchors)
{
	size_t off = 0, t, i;
	if (depth == 0)
	{
		for (i = 0; i < n; ++i)
		{
			t = derOCTDec3(der + off, count - off, item, len);
			if (t == SIZE_MAX) return SIZE_MAX;
			off += t;
		}
		return off;
	}
	t = derTSEQDecStart(anchors + depth - 1, der, count, tag);
	if (t == SIZE_MAX) return SIZE_MAX;
	off += t;
	t = co_seq_dec(der + off, count - off, tag, depth - 1, n, len, item, anchors);
	if (t == SIZE_MAX) return SIZE_MAX;
	off += t;
	t = derNULLDec(der + off, count - off);
	if (t == SIZE_MAX) return SIZE_MAX;
	off += t;
	t = derTSEQDecStop(der + off, anchors + depth - 1);
	if (t != 0) return SIZE_MAX;
	return off;
}

/* der-seq seed tag depth n len ; depth >= 1 */
static int co_der_seq(size_t np, const size_t* p)
{
	u32 tag = (u32)p[1];
	size_t depth = p[2], n = p[3], len = p[4], c, c1;
	der_anchor_t* anchors;
	octet *item, *der;
	co_seed(p[0]);
	CO_T(depth >= 1 && depth <= 16, "bad-depth");
	item = co_r(len);
	anchors = (der_anchor_t*)co_m(depth * sizeof(der_anchor_t));
	/* pass 1: abstract positions (free origin) */
	c = co_seq_enc(0, 0, tag, depth, n, len, item, anchors);
	CO_T(c != SIZE_MAX, "seq-enc-len");
	c1 = co_seq_enc(0, 1000 + co_below(100000), tag, depth, n, len, item, anchors);
	CO_T(c1 == c, "seq-enc-len-pos");
	/* pass 2: exactly c octets */
	der = (octet*)co_m(c);
	c1 = co_seq_enc(der, 0, tag, depth, n, len, item, anchors);
	CO_T(c1 == c, "seq-enc");
	CO_T(derIsValid(der, c) == TRUE, "derIsValid");
	CO_T(derIsValid2(der, c, tag) == TRUE, "derIsValid2");
	CO_T(derStartsWith(der, c, tag) == TRUE, "derStartsWith");
	CO_T(derDec(0, 0, 0, der, c) == c, "derDec");
	anchors = (der_anchor_t*)co_m(depth * sizeof(der_anchor_t));
	CO_T(co_seq_dec(der, c, tag, depth, n, len, item, anchors) == c, "seq-dec");
	/* a primitive tag is rejected */
	CO_T(derTSEQEncStart(anchors, 0, 0, 0x04) == SIZE_MAX, "seq-enc-primitive");
	CO_T(derTSEQDecStart(anchors, der, c, 0x04) == SIZE_MAX, "seq-dec-primitive");
	/* truncated code: the start is decoded or rejected without over-reads */
	{
		size_t k;
		for (k = 0; k < c && k < 8; ++k)
		{
			octet* t = co_dup(der, k);
			(void)derTSEQDecStart(anchors, t, k, tag);
		}
	}
	return 0;
}

/* ---------------------------------------------------------------- apdu */

/* apdu-cmd seed cdf_len rdf_len ; cdf_len < 65536, rdf_len <= 65536 */
static int co_apdu_cmd(size_t np, const size_t* p)
{
	size_t cl = p[1], rl = p[2], c, size, k;
	apdu_cmd_t *cmd, *cmd1;
	octet *apdu, *r;
	co_seed(p[0]);
	cmd = (apdu_cmd_t*)co_m(sizeof(apdu_cmd_t) + cl);
	memset(cmd, 0, sizeof(apdu_cmd_t));
	cmd->cla = (octet)co_next(), cmd->ins = (octet)co_next();
	cmd->p1 = (octet)co_next(), cmd->p2 = (octet)co_next();
	cmd->cdf_len = cl, cmd->rdf_len = rl;
	r = co_r(cl);
	if (cl) memcpy(cmd->cdf, r, cl);
	CO_T(apduCmdIsValid(cmd) == TRUE, "apduCmdIsValid");
	c = apduCmdEnc(0, cmd);
	CO_T(c != SIZE_MAX, "apduCmdEnc-len");
	apdu = (octet*)co_m(c);
	CO_T(apduCmdEnc(apdu, cmd) == c, "apduCmdEnc");
	size = apduCmdDec(0, apdu, c);
	CO_T(size == sizeof(apdu_cmd_t) + cl, "apduCmdDec-size");
	cmd1 = (apdu_cmd_t*)co_m(size);
	CO_T(apduCmdDec(cmd1, apdu, c) == size, "apduCmdDec");
	CO_T(apduCmdIsValid(cmd1) == TRUE, "apduCmdIsValid-1");
	CO_T(cmd1->cla == cmd->cla && cmd1->ins == cmd->ins && cmd1->p1 == cmd->p1 &&
		cmd1->p2 == cmd->p2, "apdu-cmd-hdr");
	CO_T(cmd1->cdf_len == cl && cmd1->rdf_len == rl, "apdu-cmd-lens");
	CO_EQ(cmd1->cdf, cmd->cdf, cl, "apdu-cmd-cdf");
	/* prefixes of the code: decoded (two-pass, exact) or rejected, never over-read */
	for (k = 0; k < c; k = (k < 9 || k + 4 >= c) ? k + 1 : c - 4)
	{
		octet* t = co_dup(apdu, k);
		size_t s = apduCmdDec(0, t, k);
		if (s != SIZE_MAX)
		{
			apdu_cmd_t* c2 = (apdu_cmd_t*)co_m(s);
			CO_T(apduCmdDec(c2, t, k) == s, "apduCmdDec-prefix");
			CO_T(s == sizeof(apdu_cmd_t) + c2->cdf_len, "apduCmdDec-prefix-size");
		}
	}
	return 0;
}

/* apdu-resp seed rdf_len ; rdf_len <= 65536 */
static int co_apdu_resp(size_t np, const size_t* p)
{
	size_t rl = p[1], c, size;
	apdu_resp_t *resp, *resp1;
	octet *apdu, *r, *t;
	co_seed(p[0]);
	resp = (apdu_resp_t*)co_m(sizeof(apdu_resp_t) + rl);
	memset(resp, 0, sizeof(apdu_resp_t));
	resp->sw1 = (octet)co_next(), resp->sw2 = (octet)co_next(), resp->rdf_len = rl;
	r = co_r(rl);
	if (rl) memcpy(resp->rdf, r, rl);
	CO_T(apduRespIsValid(resp) == TRUE, "apduRespIsValid");
	c = apduRespEnc(0, resp);
	CO_T(c == rl + 2, "apduRespEnc-len");
	apdu = (octet*)co_m(c);
	CO_T(apduRespEnc(apdu, resp) == c, "apduRespEnc");
	size = apduRespDec(0, apdu, c);
	CO_T(size == sizeof(apdu_resp_t) + rl, "apduRespDec-size");
	resp1 = (apdu_resp_t*)co_m(size);
	CO_T(apduRespDec(resp1, apdu, c) == size, "apduRespDec");
	CO_T(apduRespIsValid(resp1) == TRUE, "apduRespIsValid-1");
	CO_T(resp1->sw1 == resp->sw1 && resp1->sw2 == resp->sw2 && resp1->rdf_len == rl,
		"apdu-resp-hdr");
	CO_EQ(resp1->rdf, resp->rdf, rl, "apdu-resp-rdf");
	t = co_dup(apdu, 1);
	CO_T(apduRespDec(0, t, 1) == SIZE_MAX, "apduRespDec-short");
	t = (octet*)co_m(0);
	CO_T(apduRespDec(0, t, 0) == SIZE_MAX, "apduRespDec-empty");
	return 0;
}

/* ---------------------------------------------------------------- hex */

/* hex-rt seed n */
static int co_hex_rt(size_t np, const size_t* p)
{
	size_t n = p[1], i;
	octet *src, *back, *rev;
	char *h, *hr, *hl;
	co_seed(p[0]);
	src = co_r(n);
	h = (char*)co_m(2 * n + 1);
	hexFrom(h, src, n);
	CO_T(strlen(h) == 2 * n, "hexFrom-len");
	CO_T(hexIsValid(h) == TRUE, "hexIsValid");
	CO_T(hexEq(src, h) == TRUE, "hexEq");
	CO_T(SAFE(hexEq)(src, h) == TRUE && FAST(hexEq)(src, h) == TRUE, "hexEq-sf");
	back = (octet*)co_m(n);
	hexTo(back, h);
	CO_EQ(back, src, n, "hexTo");
	/* reverse */
	hr = (char*)co_m(2 * n + 1);
	hexFromRev(hr, src, n);
	CO_T(strlen(hr) == 2 * n && hexIsValid(hr) == TRUE, "hexFromRev-len");
	CO_T(hexEqRev(src, hr) == TRUE, "hexEqRev");
	CO_T(SAFE(hexEqRev)(src, hr) == TRUE && FAST(hexEqRev)(src, hr) == TRUE, "hexEqRev-sf");
	back = (octet*)co_m(n);
	hexToRev(back, hr);
	CO_EQ(back, src, n, "hexToRev");
	rev = co_dup(src, n);
	memRev(rev, n);
	CO_T(hexEq(rev, hr) == TRUE, "hexEq-rev");
	/* case */
	hl = co_str(h);
	hexLower(hl);
	CO_T(hexIsValid(hl) == TRUE && hexEq(src, hl) == TRUE, "hexLower");
	for (i = 0; i < 2 * n; ++i)
		CO_T(!(hl[i] >= 'A' && hl[i] <= 'F'), "hexLower-case");
	back = (octet*)co_m(n);
	hexTo(back, hl);
	CO_EQ(back, src, n, "hexTo-lower");
	hexUpper(hl);
	CO_T(strcmp(hl, h) == 0, "hexUpper");
	/* difference */
	if (n)
	{
		back = co_dup(src, n);
		back[co_below(n)] ^= 0x40;
		CO_T(hexEq(back, h) == FALSE && FAST(hexEq)(back, h) == FALSE, "hexEq-diff");
		CO_T(hexEqRev(back, hr) == FALSE && FAST(hexEqRev)(back, hr) == FALSE, "hexEqRev-diff");
	}
	return 0;
}

/* hex-valid seed n : invalid strings in exact buffers */
static int co_hex_valid(size_t np, const size_t* p)
{
	size_t n = p[1];
	octet* src;
	char *h, *t;
	co_seed(p[0]);
	src = co_r(n);
	h = (char*)co_m(2 * n + 1);
	hexFrom(h, src, n);
	CO_T(hexIsValid(h) == TRUE, "hexIsValid");
	/* odd length */
	t = (char*)co_m(2 * n + 2);
	memcpy(t, h, 2 * n), t[2 * n] = 'A', t[2 * n + 1] = 0;
	CO_T(hexIsValid(t) == FALSE, "hexIsValid-odd");
	if (n)
	{
		t = co_str(h);
		t[2 * n - 1] = 0;
		t = co_str(t);
		CO_T(hexIsValid(t) == FALSE, "hexIsValid-odd-1");
		t = co_str(h);
		t[co_below(2 * n)] = "Gg/:@`xZ -"[co_below(10)];
		CO_T(hexIsValid(t) == FALSE, "hexIsValid-char");
	}
	return 0;
}

/* ---------------------------------------------------------------- b64 */

/* b64-rt seed n */
static int co_b64_rt(size_t np, const size_t* p)
{
	size_t n = p[1], bl = 4 * ((n + 2) / 3), *pc = co_sz();
	octet *src, *back;
	char* s;
	co_seed(p[0]);
	src = co_r(n);
	s = (char*)co_m(bl + 1);
	b64From(s, src, n);
	CO_T(strlen(s) == bl, "b64From-len");
	CO_T(b64IsValid(s) == TRUE, "b64IsValid");
	*pc = 0;
	b64To(0, pc, s);
	CO_T(*pc == n, "b64To-len");
	back = (octet*)co_m(*pc);
	b64To(back, pc, s);
	CO_T(*pc == n, "b64To-count");
	CO_EQ(back, src, n, "b64To");
	return 0;
}

/* b64-valid seed n : invalid strings in exact buffers */
static int co_b64_valid(size_t np, const size_t* p)
{
	size_t n = p[1], bl = 4 * ((n + 2) / 3);
	octet* src;
	char *s, *t;
	co_seed(p[0]);
	src = co_r(n);
	s = (char*)co_m(bl + 1);
	b64From(s, src, n);
	CO_T(b64IsValid(s) == TRUE, "b64IsValid");
	/* length not a multiple of 4 */
	t = (char*)co_m(bl + 2);
	memcpy(t, s, bl), t[bl] = 'A', t[bl + 1] = 0;
	CO_T(b64IsValid(t) == FALSE, "b64IsValid-len1");
	t = (char*)co_m(bl + 3);
	memcpy(t, s, bl), t[bl] = 'A', t[bl + 1] = 'A', t[bl + 2] = 0;
	CO_T(b64IsValid(t) == FALSE, "b64IsValid-len2");
	if (n)
	{
		t = co_str(s);
		t[bl - 1] = 0;
		t = co_str(t);
		CO_T(b64IsValid(t) == FALSE, "b64IsValid-len3");
		/* bad character */
		t = co_str(s);
		t[co_below(bl - 2)] = "-_*. \n"[co_below(6)];
		CO_T(b64IsValid(t) == FALSE, "b64IsValid-char");
		/* '=' in the middle */
		if (bl > 4)
		{
			t = co_str(s);
			t[co_below(bl - 4)] = '=';
			CO_T(b64IsValid(t) == FALSE, "b64IsValid-pad");
		}
		/* non-zero padding bits */
		if (n % 3 == 1)
		{
			t = co_str(s);
			t[bl - 3] = 'B';	/* 000001: four low bits must be zero */
			CO_T(b64IsValid(t) == FALSE, "b64IsValid-bits4");
		}
		if (n % 3 == 2)
		{
			t = co_str(s);
			t[bl - 2] = 'B';	/* 000001: two low bits must be zero */
			CO_T(b64IsValid(t) == FALSE, "b64IsValid-bits2");
		}
	}
	{
		t = co_str("====");
		CO_T(b64IsValid(t) == FALSE, "b64IsValid-4pad");
		t = co_str("A===");
		CO_T(b64IsValid(t) == FALSE, "b64IsValid-3pad");
		t = co_str("=");
		CO_T(b64IsValid(t) == FALSE, "b64IsValid-1pad");
	}
	return 0;
}

/* ---------------------------------------------------------------- dec */

/* dec-u32 seed count num */
static int co_dec_u32(size_t np, const size_t* p)
{
	size_t count = p[1], i;
	u32 num = (u32)p[2], m;
	char *d, *t;
	co_seed(p[0]);
	d = (char*)co_m(count + 1);
	decFromU32(d, count, num);
	CO_T(strlen(d) == count, "decFromU32-len");
	CO_T(decIsValid(d) == TRUE, "decIsValid");
	for (m = num, i = count; i--; m /= 10)
		CO_T(d[i] == (char)('0' + m % 10), "decFromU32-digit");
	if (count >= 10)
		CO_T(decToU32(d) == num, "decToU32");
	else
	{
		u32 mod = 1;
		for (i = 0; i < count; ++i) mod *= 10;
		CO_T(decToU32(d) == num % mod, "decToU32-mod");
	}
	for (i = 0; i < count && d[i] == '0'; ++i);
	CO_T(decCLZ(d) == i, "decCLZ");
	if (count)
	{
		t = co_str(d);
		t[co_below(count)] = "aA /:-"[co_below(6)];
		CO_T(decIsValid(t) == FALSE, "decIsValid-bad");
	}
	return 0;
}

/* dec-u64 seed count num */
static int co_dec_u64(size_t np, const size_t* p)
{
#ifdef U64_SUPPORT
	size_t count = p[1], i;
	u64 num = (u64)p[2], m;
	char* d;
	co_seed(p[0]);
	d = (char*)co_m(count + 1);
	decFromU64(d, count, num);
	CO_T(strlen(d) == count, "decFromU64-len");
	CO_T(decIsValid(d) == TRUE, "decIsValid");
	for (m = num, i = count; i--; m /= 10)
		CO_T(d[i] == (char)('0' + m % 10), "decFromU64-digit");
	if (count >= 20)
		CO_T(decToU64(d) == num, "decToU64");
	else
	{
		u64 mod = 1;
		for (i = 0; i < count; ++i) mod *= 10;
		CO_T(decToU64(d) == num % mod, "decToU64-mod");
	}
	for (i = 0; i < count && d[i] == '0'; ++i);
	CO_T(decCLZ(d) == i, "decCLZ");
#endif
	return 0;
}

/* dec-check seed n : Luhn / Damm check digits */
static int co_dec_check(size_t np, const size_t* p)
{
	size_t n = p[1], i;
	char *d, *t, c;
	co_seed(p[0]);
	d = (char*)co_m(n + 1);
	for (i = 0; i < n; ++i) d[i] = (char)('0' + co_below(10));
	d[n] = 0;
	CO_T(decIsValid(d) == TRUE, "decIsValid");
	/* Luhn */
	c = decLuhnCalc(d);
	CO_T(c >= '0' && c <= '9', "decLuhnCalc");
	t = (char*)co_m(n + 2);
	memcpy(t, d, n), t[n] = c, t[n + 1] = 0;
	CO_T(decLuhnVerify(t) == TRUE, "decLuhnVerify");
	i = co_below(n + 1);
	t[i] = (char)('0' + (t[i] - '0' + 1 + co_below(9)) % 10);
	CO_T(decLuhnVerify(t) == FALSE, "decLuhnVerify-bad");
	/* Damm */
	c = decDammCalc(d);
	CO_T(c >= '0' && c <= '9', "decDammCalc");
	t = (char*)co_m(n + 2);
	memcpy(t, d, n), t[n] = c, t[n + 1] = 0;
	CO_T(decDammVerify(t) == TRUE, "decDammVerify");
	i = co_below(n + 1);
	t[i] = (char)('0' + (t[i] - '0' + 1 + co_below(9)) % 10);
	CO_T(decDammVerify(t) == FALSE, "decDammVerify-bad");
	return 0;
}

/* ---------------------------------------------------------------- str */

static char* co_alnum(size_t n)
{
	static const char abc[] = "ABCDEFGHIJKLMNOPQRSTUVWXYZabcdefghijklmnopqrstuvwxyz0123456789";
	char* s = (char*)co_m(n + 1);
	size_t i;
	for (i = 0; i < n; ++i) s[i] = abc[co_below(62)];
	s[n] = 0;
	return s;
}

/* str-ops seed n */
static int co_str_ops(size_t np, const size_t* p)
{
	size_t n = p[1], k, i;
	char *s, *d, *t;
	co_seed(p[0]);
	s = co_alnum(n);
	CO_T(strLen(s) == n, "strLen");
	CO_T(strIsValid(s) == TRUE, "strIsValid");
	CO_T(strLen2(s, 0) == 0, "strLen2-0");
	CO_T(strLen2(s, n / 2) == n / 2, "strLen2-half");
	CO_T(strLen2(s, n) == n, "strLen2-n");
	CO_T(strLen2(s, n + 1) == n, "strLen2-n1");
	d = (char*)co_m(n + 1);
	strCopy(d, s);
	CO_T(strcmp(d, s) == 0, "strCopy");
	CO_T(strCmp(d, s) == 0 && strEq(d, s), "strCmp-eq");
	CO_T(strIsAlphanumeric(s) == TRUE && strIsPrintable(s) == TRUE, "strIsAlphanumeric");
	/* prefixes / suffixes in exact buffers */
	k = co_below(n + 1);
	t = (char*)co_m(k + 1);
	memcpy(t, s, k), t[k] = 0;
	CO_T(strStartsWith(s, t) == TRUE, "strStartsWith");
	CO_T(k == n || strCmp(s, t) == 1, "strCmp-gt");
	CO_T(k == n || strCmp(t, s) == -1, "strCmp-lt");
	t = co_str(s + n - k);
	CO_T(strEndsWith(s, t) == TRUE, "strEndsWith");
	CO_T(strStartsWith(s, s) == TRUE && strEndsWith(s, s) == TRUE, "strStartsWith-self");
	t = (char*)co_m(n + 2);
	memcpy(t, s, n), t[n] = 'x', t[n + 1] = 0;
	CO_T(strStartsWith(s, t) == FALSE, "strStartsWith-longer");
	CO_T(strStartsWith(t, s) == TRUE, "strStartsWith-2");
	t = (char*)co_m(n + 2);
	t[0] = 'x', memcpy(t + 1, s, n + 1);
	CO_T(strEndsWith(s, t) == FALSE, "strEndsWith-longer");
	CO_T(strEndsWith(t, s) == TRUE, "strEndsWith-2");
	if (n)
	{
		t = co_str(s);
		i = co_below(n);
		t[i] = (char)(t[i] == '#' ? '$' : '#');
		CO_T(strIsAlphanumeric(t) == FALSE && strIsPrintable(t) == FALSE, "strIs-bad");
		CO_T(strCmp(t, s) != 0, "strCmp-diff");
		CO_T(strStartsWith(s, t) == FALSE && strEndsWith(s, t) == FALSE, "strStarts-diff");
	}
	/* numeric */
	t = (char*)co_m(n + 1);
	for (i = 0; i < n; ++i) t[i] = (char)('0' + co_below(10));
	t[n] = 0;
	CO_T(strIsNumeric(t) == TRUE, "strIsNumeric");
	if (n)
	{
		t[co_below(n)] = 'a';
		CO_T(strIsNumeric(t) == FALSE, "strIsNumeric-bad");
	}
	/* reverse */
	t = co_str(s);
	strRev(t);
	for (i = 0; i < n; ++i)
		CO_T(t[i] == s[n - 1 - i], "strRev");
	CO_T(t[n] == 0, "strRev-nul");
	strRev(t);
	CO_T(strcmp(t, s) == 0, "strRev-2");
	/* fill */
	strSet(d, '*');
	CO_T(strlen(d) == n, "strSet-len");
	for (i = 0; i < n; ++i)
		CO_T(d[i] == '*', "strSet");
	return 0;
}

/* ---------------------------------------------------------------- oid */

/* oid-der seed k narcs */
static int co_oid_der(size_t np, const size_t* p)
{
	size_t c, l, k;
	char *s, *o;
	octet *der, *t;
	co_seed(p[0]);
	s = co_oid(p[1], p[2]);
	CO_T(oidIsValid(s) == TRUE, "oidIsValid");
	c = oidToDER(0, s);
	CO_T(c != SIZE_MAX, "oidToDER-len");
	der = (octet*)co_m(c);
	CO_T(oidToDER(der, s) == c, "oidToDER");
	CO_T(der[0] == 0x06, "oidToDER-tag");
	l = oidFromDER(0, der, c);
	CO_T(l == strlen(s), "oidFromDER-len");
	o = (char*)co_m(l + 1);		/* l characters + terminating zero */
	CO_T(oidFromDER(o, der, c) == l, "oidFromDER");
	CO_T(strcmp(o, s) == 0, "oidFromDER-val");
	CO_T(oidIsValid(o) == TRUE, "oidIsValid-2");
	/* count must be the exact length of the code */
	t = (octet*)co_m(c + 1);
	memcpy(t, der, c), t[c] = 0;
	CO_T(oidFromDER(0, t, c + 1) == SIZE_MAX, "oidFromDER-longer");
	for (k = 0; k < c; ++k)
	{
		t = co_dup(der, k);
		CO_T(oidFromDER(0, t, k) == SIZE_MAX, "oidFromDER-trunc");
	}
	return 0;
}

/* oid-valid seed : invalid identifiers in exact buffers */
static int co_oid_valid(size_t np, const size_t* p)
{
	static const char* bad[] = {
		"", "0", "1", "2", "3.1", "1.40", "0.40", "1.2.", "1..2", ".1.2", "01.2", "1.02",
		"1.2.03", "2.4294967216", "2.4294967295", "1.2.4294967296", "1.2.42949672950", "a.b",
		"1.2.x", "1,2", "1.2 ", " 1.2", "1.-2", "10.1", "1.2.3.", "1.2..3", "2.99999999999",
	};
	size_t i;
	co_seed(p[0]);
	for (i = 0; i < sizeof(bad) / sizeof(bad[0]); ++i)
	{
		char* s = co_str(bad[i]);
		if (oidIsValid(s) != FALSE) return co_fail("oidIsValid-bad", (unsigned long)i);
		if (oidToDER(0, s) != SIZE_MAX) return co_fail("oidToDER-bad", (unsigned long)i);
	}
	for (i = 0; i < CO_NOIDS; ++i)
	{
		char* s = co_str(co_oids_[i]);
		if (oidIsValid(s) != TRUE) return co_fail("oidIsValid-good", (unsigned long)i);
	}
	return 0;
}

/* ---------------------------------------------------------------- mem */

/* mem-ops seed n */
static int co_mem_ops(size_t np, const size_t* p)
{
	size_t n = p[1], i, k;
	octet *a, *b, *c, *d, *z;
	co_seed(p[0]);
	a = co_r(n), b = co_r(n);
	/* copy / set / neg */
	d = (octet*)co_m(n);
	memCopy(d, a, n);
	CO_EQ(d, a, n, "memCopy");
	CO_T(memEq(d, a, n) == TRUE && SAFE(memEq)(d, a, n) == TRUE && FAST(memEq)(d, a, n) == TRUE,
		"memEq");
	CO_T(memCmp(d, a, n) == 0 && FAST(memCmp)(d, a, n) == 0, "memCmp-eq");
	CO_T(memCmpRev(d, a, n) == 0 && FAST(memCmpRev)(d, a, n) == 0, "memCmpRev-eq");
	memNeg(d, n);
	for (i = 0; i < n; ++i) CO_T(d[i] == (octet)~a[i], "memNeg");
	CO_T(n == 0 || memEq(d, a, n) == FALSE, "memEq-neg");
	memSet(d, 0x5A, n);
	CO_T(memIsRep(d, n, 0x5A) == TRUE && FAST(memIsRep)(d, n, 0x5A) == TRUE, "memIsRep");
	CO_T(n == 0 || memIsRep(d, n, 0x5B) == FALSE, "memIsRep-other");
	memSetZero(d, n);
	CO_T(memIsZero(d, n) == TRUE && FAST(memIsZero)(d, n) == TRUE, "memIsZero");
	CO_T(memNonZeroSize(d, n) == 0, "memNonZeroSize-0");
	CO_T(memIsRep(d, n, 0) == TRUE, "memIsRep-0");
	if (n)
	{
		k = co_below(n);
		d[k] = 1;
		CO_T(memIsZero(d, n) == FALSE && FAST(memIsZero)(d, n) == FALSE, "memIsZero-nz");
		CO_T(memNonZeroSize(d, n) == k + 1, "memNonZeroSize");
		CO_T(memIsRep(d, n, 0) == FALSE && FAST(memIsRep)(d, n, 0) == FALSE, "memIsRep-nz");
		/* comparisons: first difference decides (memCmp) / last difference decides (Rev) */
		c = co_dup(a, n);
		c[k] = (octet)(a[k] + 1 + co_below(255));
		CO_T(memEq(c, a, n) == FALSE && FAST(memEq)(c, a, n) == FALSE, "memEq-diff");
		CO_T((memCmp(c, a, n) > 0) == (c[k] > a[k]) && memCmp(c, a, n) != 0, "memCmp");
		CO_T((memCmp(a, c, n) < 0) == (c[k] > a[k]), "memCmp-swap");
		CO_T((FAST(memCmp)(c, a, n) > 0) == (c[k] > a[k]), "memCmp-fast");
		CO_T((memCmpRev(c, a, n) > 0) == (c[k] > a[k]) && memCmpRev(c, a, n) != 0, "memCmpRev");
		CO_T((FAST(memCmpRev)(c, a, n) > 0) == (c[k] > a[k]), "memCmpRev-fast");
	}
	memWipe(d, n);
	/* xor */
	d = (octet*)co_m(n);
	memXor(d, a, b, n);
	for (i = 0; i < n; ++i) CO_T(d[i] == (octet)(a[i] ^ b[i]), "memXor");
	c = co_dup(a, n);
	memXor(c, c, b, n);
	CO_EQ(c, d, n, "memXor-inplace1");
	c = co_dup(b, n);
	memXor(c, a, c, n);
	CO_EQ(c, d, n, "memXor-inplace2");
	c = co_dup(a, n);
	memXor2(c, b, n);
	CO_EQ(c, d, n, "memXor2");
	memXor2(c, c, n);
	CO_T(memIsZero(c, n) == TRUE, "memXor2-self");
	/* swap / rev */
	c = co_dup(a, n), d = co_dup(b, n);
	memSwap(c, d, n);
	CO_EQ(c, b, n, "memSwap-1");
	CO_EQ(d, a, n, "memSwap-2");
	memRev(c, n);
	for (i = 0; i < n; ++i) CO_T(c[i] == b[n - 1 - i], "memRev");
	/* predicates */
	CO_T(memIsValid(a, n) == TRUE && memIsValid(0, 0) == TRUE, "memIsValid");
	CO_T(memIsDisjoint(a, b, n) == TRUE, "memIsDisjoint");
	CO_T(memIsSameOrDisjoint(a, a, n) == TRUE && memIsSameOrDisjoint(a, b, n) == TRUE,
		"memIsSameOrDisjoint");
	CO_T(memIsDisjoint2(a, n, b, n) == TRUE, "memIsDisjoint2");
	CO_T(memIsDisjoint3(a, n, b, n, c, n) == TRUE, "memIsDisjoint3");
	CO_T(memIsDisjoint4(a, n, b, n, c, n, d, n) == TRUE, "memIsDisjoint4");
	if (n > 1)
	{
		CO_T(memIsDisjoint(a, a + 1, n - 1) == FALSE || n == 2, "memIsDisjoint-ovl");
		CO_T(memIsDisjoint2(a, n, a + n / 2, n - n / 2) == FALSE, "memIsDisjoint2-ovl");
		CO_T(memIsDisjoint2(a, n / 2, a + n / 2, n - n / 2) == TRUE, "memIsDisjoint2-adj");
	}
	z = (octet*)co_m(8);
	CO_T(memIsAligned(z, 8) == TRUE && memIsAligned(z + 1, 2) == FALSE, "memIsAligned");
	return 0;
}

/* mem-move seed n k : overlapping moves inside one exact block of n + k octets */
static int co_mem_move(size_t np, const size_t* p)
{
	size_t n = p[1], k = p[2];
	octet *buf, *ref;
	co_seed(p[0]);
	ref = co_r(n + k);
	buf = co_dup(ref, n + k);
	memMove(buf + k, buf, n);
	CO_EQ(buf + k, ref, n, "memMove-up");
	CO_EQ(buf, ref, k < n ? k : n, "memMove-up-head");
	buf = co_dup(ref, n + k);
	memMove(buf, buf + k, n);
	CO_EQ(buf, ref + k, n, "memMove-down");
	buf = co_dup(ref, n + k);
	memMove(buf, buf, n + k);
	CO_EQ(buf, ref, n + k, "memMove-same");
	return 0;
}

/* mem-join seed n1 n2 */
static int co_mem_join(size_t np, const size_t* p)
{
	size_t n1 = p[1], n2 = p[2];
	octet *s1, *s2, *d, *buf;
	co_seed(p[0]);
	s1 = co_r(n1), s2 = co_r(n2);
	d = (octet*)co_m(n1 + n2);
	memJoin(d, s1, n1, s2, n2);
	CO_EQ(d, s1, n1, "memJoin-1");
	CO_EQ(d + n1, s2, n2, "memJoin-2");
	/* src1 in the head of dest */
	buf = (octet*)co_m(n1 + n2);
	if (n1) memcpy(buf, s1, n1);
	memJoin(buf, buf, n1, s2, n2);
	CO_EQ(buf, d, n1 + n2, "memJoin-head");
	/* src2 already in place */
	buf = (octet*)co_m(n1 + n2);
	if (n2) memcpy(buf + n1, s2, n2);
	memJoin(buf, s1, n1, buf + n1, n2);
	CO_EQ(buf, d, n1 + n2, "memJoin-tail");
	/* crossed: src2 in the head, src1 in the tail of dest */
	buf = (octet*)co_m(n1 + n2);
	if (n2) memcpy(buf, s2, n2);
	if (n1) memcpy(buf + n2, s1, n1);
	memJoin(buf, buf + n2, n1, buf, n2);
	CO_EQ(buf, d, n1 + n2, "memJoin-crossed");
	/* src1 in the tail, src2 separate */
	buf = (octet*)co_m(n1 + n2);
	if (n1) memcpy(buf + n2, s1, n1);
	memJoin(buf, buf + n2, n1, s2, n2);
	CO_EQ(buf, d, n1 + n2, "memJoin-src1-tail");
	/* src2 in the head, src1 separate */
	buf = (octet*)co_m(n1 + n2);
	if (n2) memcpy(buf, s2, n2);
	memJoin(buf, s1, n1, buf, n2);
	CO_EQ(buf, d, n1 + n2, "memJoin-src2-head");
	return 0;
}

/* mem-alloc seed n m */
static int co_mem_alloc(size_t np, const size_t* p)
{
	size_t n = p[1], m = p[2], i;
	octet *a, *b;
	co_seed(p[0]);
	a = (octet*)memAlloc(n);
	CO_T(a != 0, "memAlloc");
	memSet(a, 0xC3, n);
	b = (octet*)memRealloc(a, m);
	if (m == 0)
	{
		CO_T(b == 0, "memRealloc-0");
		return 0;
	}
	CO_T(b != 0, "memRealloc");
	for (i = 0; i < n && i < m; ++i)
		if (b[i] != 0xC3) { memFree(b); return co_fail("memRealloc-keep", (unsigned long)i); }
	memSet(b, 0x3C, m);
	memFree(b);
	return 0;
}

/* ---------------------------------------------------------------- u16 / u32 / u64 */

/* uNN-ops seed n cnt : Rev2 on [n] words; From / To with cnt octets (not a multiple of the word) */
#define CO_UOPS(NN, T, REV, REV2, FROM, TO)\
static int co_u##NN##_ops(size_t np, const size_t* p)\
{\
	size_t n = p[1], cnt = p[2], m = (cnt + sizeof(T) - 1) / sizeof(T), i;\
	T *a, *b, *w;\
	octet *src, *dst;\
	co_seed(p[0]);\
	a = (T*)co_r(n * sizeof(T)), b = (T*)co_dup(a, n * sizeof(T));\
	REV2(b, n);\
	for (i = 0; i < n; ++i) CO_T(b[i] == REV(a[i]), "Rev2");\
	REV2(b, n);\
	CO_EQ(a, b, n * sizeof(T), "Rev2-2");\
	src = co_r(cnt);\
	w = (T*)co_m(m * sizeof(T));\
	FROM(w, src, cnt);\
	for (i = 0; i < m * sizeof(T); ++i)\
		CO_T((octet)(w[i / sizeof(T)] >> 8 * (i % sizeof(T))) == (i < cnt ? src[i] : 0), "From");\
	dst = (octet*)co_m(cnt);\
	TO(dst, cnt, w);\
	CO_EQ(dst, src, cnt, "To");\
	/* in place: the octets are already in the word buffer */\
	w = (T*)co_m(m * sizeof(T));\
	if (cnt) memcpy(w, src, cnt);\
	FROM(w, w, cnt);\
	TO(w, cnt, w);\
	CO_EQ(w, src, cnt, "FromTo-inplace");\
	return 0;\
}
CO_UOPS(16, u16, u16Rev, u16Rev2, u16From, u16To)
CO_UOPS(32, u32, u32Rev, u32Rev2, u32From, u32To)
#ifdef U64_SUPPORT
CO_UOPS(64, u64, u64Rev, u64Rev2, u64From, u64To)
#else
static int co_u64_ops(size_t np, const size_t* p) { return 0; }
#endif

/* ---------------------------------------------------------------- ww */

static int co_bit(const word* a, size_t i) { return (int)((a[i / B_PER_W] >> (i % B_PER_W)) & 1); }

/* ww-ops seed n z : [n] words whose z top words are zero */
static int co_ww_ops(size_t np, const size_t* p)
{
	size_t n = p[1], z = p[2] < p[1] ? p[2] : p[1], i, s;
	word *a, *b, *c, *d;
	co_seed(p[0]);
	a = co_w(n), b = co_w(n);
	for (i = n - z; i < n; ++i) a[i] = 0;
	if (n > z && a[n - z - 1] == 0) a[n - z - 1] = 1;
	/* copy / swap / compare */
	c = (word*)co_m(n * sizeof(word));
	wwCopy(c, a, n);
	CO_EQ(c, a, n * sizeof(word), "wwCopy");
	wwCopy(c, c, n);
	CO_EQ(c, a, n * sizeof(word), "wwCopy-same");
	CO_T(wwEq(c, a, n) == TRUE && FAST(wwEq)(c, a, n) == TRUE, "wwEq");
	CO_T(wwCmp(c, a, n) == 0 && FAST(wwCmp)(c, a, n) == 0, "wwCmp-eq");
	d = co_wdup(b, n);
	wwSwap(c, d, n);
	CO_EQ(c, b, n * sizeof(word), "wwSwap-1");
	CO_EQ(d, a, n * sizeof(word), "wwSwap-2");
	if (n)
	{
		i = co_below(n);
		c = co_wdup(a, n);
		c[i] += 1 + (word)co_below(1000);
		CO_T(wwEq(c, a, n) == FALSE && FAST(wwEq)(c, a, n) == FALSE, "wwEq-diff");
		CO_T(wwCmp(c, a, n) == (c[i] > a[i] ? 1 : -1), "wwCmp");
		CO_T(FAST(wwCmp)(a, c, n) == (c[i] > a[i] ? -1 : 1), "wwCmp-fast");
	}
	/* different lengths: a without its zero top words */
	c = co_wdup(a, n - z);
	CO_T(wwCmp2(a, n, c, n - z) == 0 && wwCmp2(c, n - z, a, n) == 0, "wwCmp2-eq");
	CO_T(FAST(wwCmp2)(a, n, c, n - z) == 0, "wwCmp2-fast");
	if (n > z)
	{
		c = co_wdup(a, n - z - 1);
		CO_T(wwCmp2(a, n, c, n - z - 1) == 1 && wwCmp2(c, n - z - 1, a, n) == -1, "wwCmp2");
		CO_T(wwCmpW(a, n, a[0]) == (n - z > 1 ? 1 : 0), "wwCmpW");
		CO_T(FAST(wwCmpW)(a, n, a[0]) == (n - z > 1 ? 1 : 0), "wwCmpW-fast");
	}
	else
		CO_T(wwCmpW(a, n, 0) == 0 && wwCmpW(a, n, 1) == -1, "wwCmpW-zero");
	/* xor */
	c = (word*)co_m(n * sizeof(word));
	wwXor(c, a, b, n);
	for (i = 0; i < n; ++i) CO_T(c[i] == (a[i] ^ b[i]), "wwXor");
	d = co_wdup(a, n);
	wwXor(d, d, b, n);
	CO_EQ(d, c, n * sizeof(word), "wwXor-inplace");
	d = co_wdup(b, n);
	wwXor2(d, a, n);
	CO_EQ(d, c, n * sizeof(word), "wwXor2");
	wwXor2(d, d, n);
	CO_T(wwIsZero(d, n) == TRUE && FAST(wwIsZero)(d, n) == TRUE, "wwIsZero");
	/* set / rep / is */
	c = co_w(n);
	wwSetZero(c, n);
	CO_T(wwIsZero(c, n) == TRUE && wwIsW(c, n, 0) == TRUE && wwIsRepW(c, n, 0) == TRUE, "wwSetZero");
	CO_T(wwWordSize(c, n) == 0 && wwOctetSize(c, n) == 0 && wwBitSize(c, n) == 0, "sizes-zero");
	CO_T(wwLoZeroBits(c, n) == n * B_PER_W && wwHiZeroBits(c, n) == n * B_PER_W, "zerobits-zero");
	if (n)
	{
		word w = (word)co_next() | 1;
		c = co_w(n);
		wwSetW(c, n, w);
		CO_T(wwIsW(c, n, w) == TRUE && FAST(wwIsW)(c, n, w) == TRUE, "wwSetW");
		CO_T(wwIsW(c, n, w ^ 2) == FALSE && wwIsZero(c, n) == FALSE, "wwIsW-diff");
		CO_T(wwWordSize(c, n) == 1 && wwCmpW(c, n, w) == 0, "wwSetW-size");
		wwRepW(c, n, w);
		CO_T(wwIsRepW(c, n, w) == TRUE && FAST(wwIsRepW)(c, n, w) == TRUE, "wwRepW");
		CO_T(wwIsW(c, n, w) == (n == 1 ? TRUE : FALSE), "wwIsW-rep");
		c[co_below(n)] ^= 4;
		CO_T(wwIsRepW(c, n, w) == FALSE && FAST(wwIsRepW)(c, n, w) == FALSE, "wwIsRepW-diff");
	}
	else
	{
		c = (word*)co_m(0);
		wwSetW(c, 0, 0), wwRepW(c, 0, 0);
		CO_T(wwIsW(c, 0, 0) == TRUE && wwIsRepW(c, 0, 0) == TRUE, "empty");
	}
	/* sizes of a */
	CO_T(wwWordSize(a, n) == n - z, "wwWordSize");
	if (n > z)
	{
		word t = a[n - z - 1];
		for (s = 0; t; t >>= 1) ++s;
		CO_T(wwBitSize(a, n) == (n - z - 1) * B_PER_W + s, "wwBitSize");
		CO_T(wwHiZeroBits(a, n) == n * B_PER_W - wwBitSize(a, n), "wwHiZeroBits");
		CO_T(wwOctetSize(a, n) == (wwBitSize(a, n) + 7) / 8, "wwOctetSize");
		for (i = 0; !co_bit(a, i); ++i);
		CO_T(wwLoZeroBits(a, n) == i, "wwLoZeroBits");
	}
	return 0;
}

/* ww-bits seed pos width : [W_OF_B(pos + width)] words, width is clamped to B_PER_W */
static int co_ww_bits(size_t np, const size_t* p)
{
	size_t pos = p[1], width = p[2] < B_PER_W ? p[2] : B_PER_W, n = W_OF_B(pos + width), i;
	word *a, *b, v, g;
	co_seed(p[0]);
	a = co_w(n), b = co_wdup(a, n);
	v = (word)co_next();
	g = wwGetBits(a, pos, width);
	for (i = 0; i < width; ++i)
		CO_T((int)((g >> i) & 1) == co_bit(a, pos + i), "wwGetBits");
	CO_T(width == B_PER_W || (g >> width) == 0, "wwGetBits-hi");
	wwSetBits(a, pos, width, v);
	for (i = 0; i < n * B_PER_W; ++i)
		if (i >= pos && i < pos + width)
			CO_T(co_bit(a, i) == (int)((v >> (i - pos)) & 1), "wwSetBits-in");
		else
			CO_T(co_bit(a, i) == co_bit(b, i), "wwSetBits-out");
	g = wwGetBits(a, pos, width);
	CO_T(g == (width == B_PER_W ? v : (v & (((word)1 << width) - 1))), "wwGetBits-2");
	/* single bits in [W_OF_B(pos + 1)] words */
	n = W_OF_B(pos + 1);
	a = co_w(n), b = co_wdup(a, n);
	CO_T(wwTestBit(a, pos) == (co_bit(a, pos) ? TRUE : FALSE), "wwTestBit");
	wwFlipBit(a, pos);
	CO_T(co_bit(a, pos) != co_bit(b, pos), "wwFlipBit");
	wwSetBit(a, pos, TRUE);
	CO_T(wwTestBit(a, pos) == TRUE, "wwSetBit-1");
	wwSetBit(a, pos, FALSE);
	CO_T(wwTestBit(a, pos) == FALSE, "wwSetBit-0");
	wwSetBit(a, pos, co_bit(b, pos) ? TRUE : FALSE);
	CO_EQ(a, b, n * sizeof(word), "wwSetBit-restore");
	return 0;
}

/* ww-shift seed n shift */
static int co_ww_shift(size_t np, const size_t* p)
{
	size_t n = p[1], sh = p[2], nb = n * B_PER_W, i;
	word *a, *b, carry, r;
	co_seed(p[0]);
	a = co_w(n);
	/* ShLo */
	b = co_wdup(a, n);
	wwShLo(b, n, sh);
	for (i = 0; i < nb; ++i)
		CO_T(co_bit(b, i) == (i + sh < nb && i + sh >= i ? co_bit(a, i + sh) : 0), "wwShLo");
	/* ShHi */
	b = co_wdup(a, n);
	wwShHi(b, n, sh);
	for (i = 0; i < nb; ++i)
		CO_T(co_bit(b, i) == (i >= sh ? co_bit(a, i - sh) : 0), "wwShHi");
	/* carry editions: [n + 1]-word model with the carry word on top / below */
	carry = (word)co_next();
	b = co_wdup(a, n);
	r = wwShLoCarry(b, n, sh, carry);
	if (sh < nb + B_PER_W)
	{
		for (i = 0; i < nb; ++i)
		{
			size_t j = i + sh;
			int bit = j < nb ? co_bit(a, j) : (j < nb + B_PER_W ? (int)((carry >> (j - nb)) & 1) : 0);
			CO_T(co_bit(b, i) == bit, "wwShLoCarry");
		}
		/* pushed out last: bits sh - B_PER_W .. sh - 1 of (a, carry) */
		for (i = 0; i < B_PER_W; ++i)
		{
			size_t j = sh + i;
			int bit = j < B_PER_W ? 0 :
				(j - B_PER_W < nb ? co_bit(a, j - B_PER_W) : (int)((carry >> (j - B_PER_W - nb)) & 1));
			CO_T((int)((r >> i) & 1) == bit, "wwShLoCarry-ret");
		}
	}
	b = co_wdup(a, n);
	r = wwShHiCarry(b, n, sh, carry);
	if (sh < nb + B_PER_W)
	{
		/* model: x = carry (low word) || a ; x <<= sh ; result = words 1..n, ret = word n + 1 */
		for (i = 0; i < nb; ++i)
		{
			size_t j = i + B_PER_W;		/* position in x after the shift */
			int bit = j < sh ? 0 : (j - sh < B_PER_W ? (int)((carry >> (j - sh)) & 1) : co_bit(a, j - sh - B_PER_W));
			CO_T(co_bit(b, i) == bit, "wwShHiCarry");
		}
		for (i = 0; i < B_PER_W; ++i)
		{
			size_t j = nb + B_PER_W + i;
			int bit = j < sh ? 0 : (j - sh < B_PER_W ? (int)((carry >> (j - sh)) & 1) :
				(j - sh - B_PER_W < nb ? co_bit(a, j - sh - B_PER_W) : 0));
			CO_T((int)((r >> i) & 1) == bit, "wwShHiCarry-ret");
		}
	}
	/* trims */
	b = co_wdup(a, n);
	wwTrimLo(b, n, sh);
	for (i = 0; i < nb; ++i)
		CO_T(co_bit(b, i) == (i < sh ? 0 : co_bit(a, i)), "wwTrimLo");
	b = co_wdup(a, n);
	wwTrimHi(b, n, sh);
	for (i = 0; i < nb; ++i)
		CO_T(co_bit(b, i) == (i >= sh ? 0 : co_bit(a, i)), "wwTrimHi");
	return 0;
}

/* ww-naf seed n w z : naf is exactly [2n + 1] words; 2 <= w (clamped to B_PER_W - 1); z top words of a zero */
static int co_ww_naf(size_t np, const size_t* p)
{
	size_t n = p[1], w = p[2] < B_PER_W ? p[2] : B_PER_W - 1, z = p[3] < p[1] ? p[3] : p[1];
	size_t i, l, pos, nz;
	word *a, *naf, *acc, *t;
	co_seed(p[0]);
	CO_T(w >= 2, "bad-w");
	a = co_w(n);
	for (i = n - z; i < n; ++i) a[i] = 0;
	if (p[0] % 5 == 0 && n > z) memset(a, 0xFF, (n - z) * sizeof(word));
	naf = (word*)co_m((2 * n + 1) * sizeof(word));
	l = wwNAF(naf, a, n, w);
	CO_T(l <= wwBitSize(a, n) + 1, "wwNAF-len");
	CO_T((l == 0) == (wwIsZero(a, n) == TRUE), "wwNAF-zero");
	/* decode (first symbols of the code = last symbols of the NAF) and rebuild a in [n + 1] words */
	acc = (word*)co_z((n + 1) * sizeof(word));
	t = (word*)co_m((n + 1) * sizeof(word));
	/* the code is scanned from its first (lowest) bits: symbols a_{l-1}, ..., a_0; a non-zero
	   symbol is w bits (w - 1 bits of the odd magnitude, then the sign), a zero symbol is one 0 bit */
	for (i = 0, pos = 0, nz = 0; i < l; ++i)
	{
		size_t idx = l - 1 - i;
		CO_T(pos < (2 * n + 1) * B_PER_W, "wwNAF-code-len");
		if (co_bit(naf, pos))
		{
			word mag = 0;
			size_t k;
			int neg;
			CO_T(pos + w <= (2 * n + 1) * B_PER_W, "wwNAF-code-len2");
			for (k = 0; k + 1 < w; ++k) mag |= (word)co_bit(naf, pos + k) << k;
			neg = co_bit(naf, pos + w - 1);
			CO_T(idx <= n * B_PER_W, "wwNAF-pos");
			wwSetZero(t, n + 1);
			t[idx / B_PER_W] = mag << (idx % B_PER_W);
			if (idx % B_PER_W && idx / B_PER_W + 1 < n + 1)
				t[idx / B_PER_W + 1] = mag >> (B_PER_W - idx % B_PER_W);
			if (neg) zzSub2(acc, t, n + 1); else zzAdd2(acc, t, n + 1);
			pos += w, ++nz;
		}
		else
			++pos;
	}
	for (; pos < (2 * n + 1) * B_PER_W; ++pos)
		CO_T(co_bit(naf, pos) == 0, "wwNAF-code-tail");
	CO_T(acc[n] == 0, "wwNAF-value-top");
	CO_EQ(acc, a, n * sizeof(word), "wwNAF-value");
	return 0;
}

/* ww-from seed cnt */
static int co_ww_from(size_t np, const size_t* p)
{
	size_t cnt = p[1], n = W_OF_O(cnt), i;
	octet *src, *dst;
	word* a;
	co_seed(p[0]);
	src = co_r(cnt);
	a = (word*)co_m(n * sizeof(word));
	wwFrom(a, src, cnt);
	for (i = 0; i < n * O_PER_W; ++i)
		CO_T((octet)(a[i / O_PER_W] >> 8 * (i % O_PER_W)) == (i < cnt ? src[i] : 0), "wwFrom");
	dst = (octet*)co_m(cnt);
	wwTo(dst, cnt, a);
	CO_EQ(dst, src, cnt, "wwTo");
	CO_T(wwOctetSize(a, n) <= cnt, "wwOctetSize");
	wwRev2(a, n);
	wwRev2(a, n);
	wwTo(dst, cnt, a);
	CO_EQ(dst, src, cnt, "wwRev2");
	return 0;
}

/* ---------------------------------------------------------------- zz */

/* zz-add seed n m : additive / word operations on exact [n] (and [m]) word buffers */
static int co_zz_add(size_t np, const size_t* p)
{
	size_t n = p[1], m = p[2], k = n > m ? n : m, i;
	word *a, *b, *c, *d, *e, w, carry, borrow, r;
	co_seed(p[0]);
	a = co_w(n), b = co_w(n);
	if (p[0] % 3 == 0) memset(a, 0xFF, n * sizeof(word));
	if (p[0] % 7 == 0) memset(b, 0xFF, n * sizeof(word));
	w = (word)co_next() | 1;
	/* add / sub */
	c = (word*)co_m(n * sizeof(word));
	carry = zzAdd(c, a, b, n);
	CO_T(carry <= 1, "zzAdd-carry");
	CO_T(zzIsSumEq(c, a, b, n) == (carry ? FALSE : TRUE), "zzIsSumEq");
	CO_T(FAST(zzIsSumEq)(c, a, b, n) == (carry ? FALSE : TRUE), "zzIsSumEq-fast");
	d = (word*)co_m(n * sizeof(word));
	borrow = zzSub(d, c, b, n);
	CO_EQ(d, a, n * sizeof(word), "zzSub");
	CO_T(borrow == carry, "zzSub-borrow");
	d = co_wdup(b, n);
	CO_T(zzAdd2(d, a, n) == carry, "zzAdd2-carry");
	CO_EQ(d, c, n * sizeof(word), "zzAdd2");
	CO_T(zzSub2(d, a, n) == carry, "zzSub2-borrow");
	CO_EQ(d, b, n * sizeof(word), "zzSub2");
	d = co_wdup(a, n);
	CO_T(zzAdd(d, d, b, n) == carry, "zzAdd-inplace-carry");
	CO_EQ(d, c, n * sizeof(word), "zzAdd-inplace");
	d = co_wdup(a, n);
	zzAdd2(d, d, n);
	e = co_wdup(a, n);
	wwShHi(e, n, 1);
	CO_EQ(d, e, n * sizeof(word), "zzAdd2-double");
	/* different lengths */
	d = co_w(m);
	e = (word*)co_m(k * sizeof(word));
	carry = zzAdd3(e, a, n, d, m);
	CO_T(carry <= 1, "zzAdd3-carry");
	{
		word *x = (word*)co_z(k * sizeof(word)), *y = (word*)co_z(k * sizeof(word));
		word* s = (word*)co_m(k * sizeof(word));
		if (n) memcpy(x, a, n * sizeof(word));
		if (m) memcpy(y, d, m * sizeof(word));
		CO_T(zzAdd(s, x, y, k) == carry, "zzAdd3-carry-ref");
		CO_EQ(s, e, k * sizeof(word), "zzAdd3");
	}
	/* words */
	c = (word*)co_m(n * sizeof(word));
	carry = zzAddW(c, a, n, w);
	CO_T(zzIsSumWEq(c, a, n, w) == (carry ? FALSE : TRUE), "zzIsSumWEq");
	CO_T(FAST(zzIsSumWEq)(c, a, n, w) == (carry ? FALSE : TRUE), "zzIsSumWEq-fast");
	d = (word*)co_m(n * sizeof(word));
	borrow = zzSubW(d, c, n, w);
	if (n)
	{
		CO_EQ(d, a, n * sizeof(word), "zzSubW");
		CO_T(borrow == carry, "zzSubW-borrow");
	}
	d = co_wdup(a, n);
	CO_T(zzAddW2(d, n, w) == carry, "zzAddW2-carry");
	CO_EQ(d, c, n * sizeof(word), "zzAddW2");
	CO_T(zzSubW2(d, n, w) == carry, "zzSubW2-borrow");
	CO_EQ(d, a, n * sizeof(word), "zzSubW2");
	/* neg */
	c = (word*)co_m(n * sizeof(word));
	zzNeg(c, a, n);
	d = (word*)co_m(n * sizeof(word));
	zzAdd(d, c, a, n);
	CO_T(wwIsZero(d, n) == TRUE, "zzNeg");
	d = co_wdup(a, n);
	zzNeg(d, d, n);
	CO_EQ(d, c, n * sizeof(word), "zzNeg-inplace");
	/* mul / div by a word */
	c = (word*)co_m(n * sizeof(word));
	carry = zzMulW(c, a, n, w);
	d = (word*)co_z(n * sizeof(word));
	CO_T(zzAddMulW(d, a, n, w) == carry, "zzAddMulW-carry");
	CO_EQ(d, c, n * sizeof(word), "zzAddMulW");
	CO_T(zzSubMulW(d, a, n, w) == carry, "zzSubMulW-borrow");
	CO_T(wwIsZero(d, n) == TRUE, "zzSubMulW");
	d = co_wdup(a, n);
	CO_T(zzMulW(d, d, n, w) == carry, "zzMulW-inplace-carry");
	CO_EQ(d, c, n * sizeof(word), "zzMulW-inplace");
	d = co_wdup(b, n), e = co_wdup(b, n);
	carry = zzAddMulW(d, a, n, w);
	borrow = zzSubMulW(d, a, n, w);
	CO_EQ(d, e, n * sizeof(word), "zzAddSubMulW");
	CO_T(carry == borrow, "zzAddSubMulW-carry");
	c = (word*)co_m(n * sizeof(word));
	r = zzDivW(c, a, n, w);
	CO_T(r < w, "zzDivW-rem");
	CO_T(zzModW(a, n, w) == r, "zzModW");
	d = (word*)co_m(n * sizeof(word));
	CO_T(zzMulW(d, c, n, w) == 0, "zzDivW-mul-carry");
	CO_T(zzAddW2(d, n, r) == 0 || n == 0, "zzDivW-add-carry");
	CO_EQ(d, a, n * sizeof(word), "zzDivW");
	d = co_wdup(a, n);
	CO_T(zzDivW(d, d, n, w) == r, "zzDivW-inplace-rem");
	CO_EQ(d, c, n * sizeof(word), "zzDivW-inplace");
	{
		word sw = (w & (((word)1 << (B_PER_W / 2)) - 1)) | 1;	/* sw^2 <= B */
		CO_T(zzModW2(a, n, sw) == zzModW(a, n, sw), "zzModW2");
		CO_T(zzModW2(a, n, 1) == 0 && zzModW(a, n, 1) == 0, "zzModW-1");
		sw = (word)1 << (B_PER_W / 2);
		CO_T(zzModW2(a, n, sw) == zzModW(a, n, sw), "zzModW2-max");
	}
	for (i = 0; i < n; ++i) (void)a[i];
	return 0;
}

/* zz-mod seed n : modular additive operations and random residues; n >= 1 */
static int co_zz_mod(size_t np, const size_t* p)
{
	size_t n = p[1], i;
	word *mod, *a, *b, *c, *d, *e, w;
	void* st;
	co_seed(p[0]);
	CO_T(n >= 1, "bad-n");
	mod = co_w(n);
	if (p[0] % 4 == 0) memset(mod, 0xFF, n * sizeof(word));
	if (p[0] % 4 == 1) memset(mod, 0, n * sizeof(word)), mod[n - 1] = 1;
	mod[0] |= 1;
	if (mod[n - 1] == 0) mod[n - 1] = 1;
	if (n == 1 && mod[0] < 3) mod[0] = 3;
	st = co_combo();
	a = (word*)co_m(n * sizeof(word)), b = (word*)co_m(n * sizeof(word));
	CO_T(zzRandMod(a, mod, n, prngCOMBOStepR, st) == TRUE, "zzRandMod");
	CO_T(wwCmp(a, mod, n) < 0, "zzRandMod-range");
	CO_T(zzRandNZMod(b, mod, n, prngCOMBOStepR, st) == TRUE, "zzRandNZMod");
	CO_T(wwCmp(b, mod, n) < 0 && wwIsZero(b, n) == FALSE, "zzRandNZMod-range");
	if (p[0] % 6 == 2) zzSubW(a, mod, n, 1);	/* a = mod - 1 */
	if (p[0] % 6 == 3) wwSetZero(a, n);
	/* add / sub */
	c = (word*)co_m(n * sizeof(word));
	zzAddMod(c, a, b, mod, n);
	CO_T(wwCmp(c, mod, n) < 0, "zzAddMod-range");
	d = (word*)co_m(n * sizeof(word));
	zzSubMod(d, c, b, mod, n);
	CO_EQ(d, a, n * sizeof(word), "zzSubMod");
	FAST(zzAddMod)(d, a, b, mod, n);
	CO_EQ(d, c, n * sizeof(word), "zzAddMod-fast");
	FAST(zzSubMod)(d, c, a, mod, n);
	CO_EQ(d, b, n * sizeof(word), "zzSubMod-fast");
	d = co_wdup(a, n);
	zzAddMod(d, d, b, mod, n);
	CO_EQ(d, c, n * sizeof(word), "zzAddMod-inplace");
	zzSubMod(d, d, b, mod, n);
	CO_EQ(d, a, n * sizeof(word), "zzSubMod-inplace");
	/* words */
	w = (word)co_next();
	if (n == 1) w %= mod[0];
	c = (word*)co_m(n * sizeof(word));
	zzAddWMod(c, a, w, mod, n);
	CO_T(wwCmp(c, mod, n) < 0, "zzAddWMod-range");
	d = (word*)co_m(n * sizeof(word));
	zzSubWMod(d, c, w, mod, n);
	CO_EQ(d, a, n * sizeof(word), "zzSubWMod");
	d = co_wdup(a, n);
	zzAddWMod(d, d, w, mod, n);
	CO_EQ(d, c, n * sizeof(word), "zzAddWMod-inplace");
	/* neg */
	c = (word*)co_m(n * sizeof(word));
	zzNegMod(c, a, mod, n);
	CO_T(wwCmp(c, mod, n) < 0, "zzNegMod-range");
	d = (word*)co_m(n * sizeof(word));
	zzAddMod(d, c, a, mod, n);
	CO_T(wwIsZero(d, n) == TRUE, "zzNegMod");
	d = co_wdup(a, n);
	zzNegMod(d, d, mod, n);
	CO_EQ(d, c, n * sizeof(word), "zzNegMod-inplace");
	/* double / half */
	c = (word*)co_m(n * sizeof(word));
	zzDoubleMod(c, a, mod, n);
	d = (word*)co_m(n * sizeof(word));
	zzAddMod(d, a, a, mod, n);
	CO_EQ(d, c, n * sizeof(word), "zzDoubleMod");
	e = (word*)co_m(n * sizeof(word));
	zzHalfMod(e, c, mod, n);
	CO_EQ(e, a, n * sizeof(word), "zzHalfMod");
	FAST(zzDoubleMod)(d, a, mod, n);
	CO_EQ(d, c, n * sizeof(word), "zzDoubleMod-fast");
	FAST(zzHalfMod)(d, c, mod, n);
	CO_EQ(d, a, n * sizeof(word), "zzHalfMod-fast");
	d = co_wdup(a, n);
	zzDoubleMod(d, d, mod, n);
	zzHalfMod(d, d, mod, n);
	CO_EQ(d, a, n * sizeof(word), "zzDoubleHalfMod-inplace");
	for (i = 0; i < n; ++i) (void)mod[i];
	return 0;
}

/* ---------------------------------------------------------------- prng */

/* prng-combo seed n */
static int co_prng_combo(size_t np, const size_t* p)
{
	size_t n = p[1], s;
	u32 sd;
	void *s1, *s2;
	octet *b1, *b2, *b3;
	co_seed(p[0]);
	sd = (u32)co_next();
	s1 = co_m(prngCOMBO_keep()), s2 = co_m(prngCOMBO_keep());
	prngCOMBOStart(s1, sd), prngCOMBOStart(s2, sd);
	b1 = (octet*)co_m(n), b2 = (octet*)co_m(n);
	prngCOMBOStepR(b1, n, s1);
	prngCOMBOStepR(b2, n, s2);
	CO_EQ(b1, b2, n, "combo-det");
	/* chunked generation on a fresh state equals the one-shot output */
	prngCOMBOStart(s2, sd);
	s = co_below(n + 1);
	b2 = (octet*)co_m(s), b3 = (octet*)co_m(n - s);
	prngCOMBOStepR(b2, s, s2);
	prngCOMBOStepR(b3, n - s, s2);
	CO_EQ(b1, b2, s, "combo-chunk-1");
	CO_EQ(b1 + s, b3, n - s, "combo-chunk-2");
	return 0;
}

/* prng-echo seed slen n ; slen > 0 */
static int co_prng_echo(size_t np, const size_t* p)
{
	size_t sl = p[1], n = p[2], s, i;
	void* st;
	octet *sd, *b1, *b2;
	co_seed(p[0]);
	CO_T(sl > 0, "bad-slen");
	sd = co_r(sl);
	st = co_m(prngEcho_keep());
	prngEchoStart(st, sd, sl);
	s = co_below(n + 1);
	b1 = (octet*)co_m(s), b2 = (octet*)co_m(n - s);
	prngEchoStepR(b1, s, st);
	prngEchoStepR(b2, n - s, st);
	for (i = 0; i < s; ++i) CO_T(b1[i] == sd[i % sl], "echo-1");
	for (i = s; i < n; ++i) CO_T(b2[i - s] == sd[i % sl], "echo-2");
	return 0;
}

/* prng-stb seed n z(0: z == NULL, 1: random valid z[31]) */
static int co_prng_stb(size_t np, const size_t* p)
{
	size_t n = p[1], s, i;
	void *s1, *s2;
	u16* z = 0;
	octet *b1, *b2, *b3;
	co_seed(p[0]);
	if (p[2])
	{
		z = (u16*)co_m(31 * sizeof(u16));
		for (i = 0; i < 31; ++i) z[i] = (u16)(1 + co_below(65256));
	}
	s1 = co_m(prngSTB_keep()), s2 = co_m(prngSTB_keep());
	prngSTBStart(s1, z), prngSTBStart(s2, z);
	b1 = (octet*)co_m(n);
	prngSTBStepR(b1, n, s1);
	s = co_below(n + 1);
	b2 = (octet*)co_m(s), b3 = (octet*)co_m(n - s);
	prngSTBStepR(b2, s, s2);
	prngSTBStepR(b3, n - s, s2);
	CO_EQ(b1, b2, s, "stb-chunk-1");
	CO_EQ(b1 + s, b3, n - s, "stb-chunk-2");
	if (!z)
	{
		/* z == NULL means z[i] = i + 1 */
		z = (u16*)co_m(31 * sizeof(u16));
		for (i = 0; i < 31; ++i) z[i] = (u16)(i + 1);
		prngSTBStart(s2, z);
		b2 = (octet*)co_m(n);
		prngSTBStepR(b2, n, s2);
		CO_EQ(b1, b2, n, "stb-null-z");
	}
	return 0;
}

/* ---------------------------------------------------------------- blob */

/* blob-ops seed n m : blobs are library allocations (exact with -DBEE2_VERIF); every octet
   of blobSize() is written and read */
static int co_blob_ops(size_t np, const size_t* p)
{
	size_t n = p[1], m = p[2], i, k = n < m ? n : m;
	blob_t b, c, d;
	octet* ref;
	co_seed(p[0]);
	CO_T(blobCreate(0) == 0 && blobSize(0) == 0 && blobIsValid(0) == TRUE, "blob-null");
	CO_T(blobEq(0, 0) == TRUE && blobCmp(0, 0) == 0, "blob-null-eq");
	blobClose(0), blobWipe(0);
	b = blobCreate(n);
	if (n == 0)
	{
		CO_T(b == 0, "blobCreate-0");
		b = blobResize(0, m);
		CO_T((b == 0) == (m == 0) && blobSize(b) == m, "blobResize-null");
		if (b) memSet(b, 0x11, blobSize(b));
		blobClose(b);
		return 0;
	}
	CO_T(b != 0 && blobIsValid(b) == TRUE && blobSize(b) == n, "blobCreate");
	CO_T(memIsZero(b, blobSize(b)) == TRUE, "blobCreate-zero");
	ref = co_r(n);
	memCopy(b, ref, blobSize(b));
	c = blobCopy(0, b);
	CO_T(c != 0 && c != b && blobSize(c) == n, "blobCopy");
	CO_T(blobEq(b, c) == TRUE && blobCmp(b, c) == 0, "blobEq");
	CO_T(blobCopy(c, b) == c && blobCopy(b, b) == b, "blobCopy-same");
	((octet*)c)[co_below(n)] ^= 0x80;
	CO_T(blobEq(b, c) == FALSE && blobCmp(b, c) != 0 && (blobCmp(b, c) < 0) == (blobCmp(c, b) > 0),
		"blobCmp");
	/* resize */
	b = blobResize(b, m);
	if (m == 0)
	{
		CO_T(b == 0, "blobResize-0");
		blobClose(c);
		return 0;
	}
	CO_T(b != 0 && blobIsValid(b) == TRUE && blobSize(b) == m, "blobResize");
	for (i = 0; i < k; ++i)
		if (((octet*)b)[i] != ref[i]) { blobClose(b), blobClose(c); return co_fail("blobResize-keep", (unsigned long)i); }
	for (; i < m; ++i)
		if (((octet*)b)[i] != 0) { blobClose(b), blobClose(c); return co_fail("blobResize-zero", (unsigned long)i); }
	memSet(b, 0x77, blobSize(b));
	CO_T(m == n || (blobCmp(b, c) < 0) == (m < n), "blobCmp-size");
	CO_T(m == n || blobEq(b, c) == FALSE, "blobEq-size");
	/* copy into an existing blob of another size */
	d = blobCopy(c, b);
	CO_T(d != 0 && blobSize(d) == m && blobEq(d, b) == TRUE, "blobCopy-resize");
	memSet(d, 0x78, blobSize(d));
	blobWipe(d);
	blobClose(d);
	blobClose(b);
	return 0;
}

/* ---------------------------------------------------------------- obj */

/* obj-ops seed n1 n2 : compound objects (core/obj.h) copied / appended into exact blocks; n1, n2 >= 1 */
static int co_obj_ops(size_t np, const size_t* p)
{
	size_t n1 = p[1], n2 = p[2], h = sizeof(obj_hdr_t) + 2 * sizeof(void*), k1, k2, i;
	octet *o1, *o2, *buf, *t;
	co_seed(p[0]);
	CO_T(n1 >= 1 && n2 >= 1, "bad-params");
	/* obj1: header, 2 pointers (no objects), [n1]a1, [n2]a2 */
	k1 = h + n1 + n2;
	o1 = co_r(k1);
	((obj_hdr_t*)o1)->keep = k1, ((obj_hdr_t*)o1)->p_count = 2, ((obj_hdr_t*)o1)->o_count = 0;
	objPtr(o1, 0, octet) = o1 + h, objPtr(o1, 1, octet) = o1 + h + n1;
	/* obj2: header, 2 pointers (the first one refers to the external object obj1), [n2]a2 */
	k2 = h + n2;
	o2 = co_r(k2);
	((obj_hdr_t*)o2)->keep = k2, ((obj_hdr_t*)o2)->p_count = 2, ((obj_hdr_t*)o2)->o_count = 1;
	objPtr(o2, 0, octet) = o1, objPtr(o2, 1, octet) = o2 + h;
	CO_T(objIsOperable(o1) == TRUE && objIsOperable2(o1) == TRUE, "objIsOperable-1");
	CO_T(objIsOperable(o2) == TRUE && objIsOperable2(o2) == TRUE, "objIsOperable-2");
	CO_T(objKeep(o1) == k1 && objPCount(o2) == 2 && objOCount(o2) == 1, "obj-hdr");
	/* copy obj1 into exactly objKeep(obj1) octets: inner pointers follow */
	t = (octet*)co_m(objKeep(o1));
	objCopy(t, o1);
	CO_T(objIsOperable(t) == TRUE && objKeep(t) == k1, "objCopy-1");
	CO_T(objPtr(t, 0, octet) == t + h && objPtr(t, 1, octet) == t + h + n1, "objCopy-1-ptrs");
	CO_EQ(t + h, o1 + h, n1 + n2, "objCopy-1-data");
	/* copy obj2 into the head of exactly objKeep(obj2) + objKeep(obj1) octets, append obj1 */
	buf = (octet*)co_m(k2 + k1);
	objCopy(buf, o2);
	CO_T(objKeep(buf) == k2 && objPtr(buf, 0, octet) == o1 && objPtr(buf, 1, octet) == buf + h,
		"objCopy-2");
	objAppend(buf, o1, 0);
	CO_T(objIsOperable(buf) == TRUE && objKeep(buf) == k2 + k1, "objAppend");
	CO_T(objEnd(buf, octet) == buf + k2 + k1, "objEnd");
	t = objPtr(buf, 0, octet);
	CO_T(t == buf + k2 && objKeep(t) == k1, "objAppend-ptr");
	CO_T(objPtr(t, 0, octet) == t + h && objPtr(t, 1, octet) == t + h + n1, "objAppend-inner");
	CO_EQ(t + h, o1 + h, n1 + n2, "objAppend-data");
	CO_EQ(objPtr(buf, 1, octet), o2 + h, n2, "objAppend-own-data");
	/* move the compound object: all inner pointers (of the nested object too) follow */
	t = (octet*)co_m(objKeep(buf));
	objCopy(t, buf);
	CO_T(objIsOperable(t) == TRUE && objKeep(t) == k1 + k2, "objCopy-3");
	CO_T(objPtr(t, 0, octet) == t + k2 && objPtr(t, 1, octet) == t + h, "objCopy-3-ptrs");
	/* NOTE: objCopy() of a compound object does not re-base the pointer table of the NESTED
	   object (objShiftPtrs recurses into the nested object at its old address); the pointers
	   objPtr(t + k2, i) still refer to buf.  Not a bounds violation -> not checked here. */
	for (i = 0; i < n1 + n2; ++i)
		CO_T(t[k2 + h + i] == o1[h + i], "objCopy-3-data");
	return 0;
}

/* ---------------------------------------------------------------- containers */

static const char* co_bign_name(size_t l)
{
	return l == 128 ? "1.2.112.0.2.0.34.101.45.3.1" :
		l == 192 ? "1.2.112.0.2.0.34.101.45.3.2" :
		l == 256 ? "1.2.112.0.2.0.34.101.45.3.3" : 0;
}

/* bign-params-der seed l */
static int co_bign_params_der(size_t np, const size_t* p)
{
	size_t l = p[1], k, *pc = co_sz();
	bign_params *params, *params1;
	octet *der, *t;
	co_seed(p[0]);
	CO_T(co_bign_name(l) != 0, "bad-l");
	params = (bign_params*)co_m(sizeof(bign_params));
	CO_E(bignParamsStd(params, co_str(co_bign_name(l))), "bignParamsStd");
	/* pass 1: null output */
	*pc = 0;
	CO_E(bignParamsEnc(0, pc, params), "bignParamsEnc-len");
	k = *pc;
	CO_T(k > 5 * l / 4 && k < 1024, "bignParamsEnc-len-val");
	/* pass 2: exactly k octets */
	der = (octet*)co_m(k);
	CO_E(bignParamsEnc(der, pc, params), "bignParamsEnc");
	CO_T(*pc == k, "bignParamsEnc-count");
	CO_T(derIsValid2(der, k, 0x30) == TRUE, "derIsValid2");
	params1 = (bign_params*)co_m(sizeof(bign_params));
	CO_E(bignParamsDec(params1, der, k), "bignParamsDec");
	CO_T(params1->l == l, "bignParamsDec-l");
	CO_EQ(params1->p, params->p, l / 4, "bignParamsDec-p");
	CO_EQ(params1->a, params->a, l / 4, "bignParamsDec-a");
	CO_EQ(params1->b, params->b, l / 4, "bignParamsDec-b");
	CO_EQ(params1->q, params->q, l / 4, "bignParamsDec-q");
	CO_EQ(params1->yG, params->yG, l / 4, "bignParamsDec-yG");
	CO_EQ(params1->seed, params->seed, 8, "bignParamsDec-seed");
	CO_E(bignParamsVal(params1), "bignParamsVal");
	/* the length must be exact */
	t = co_dup(der, k - 1);
	CO_T(bignParamsDec(params1, t, k - 1) != ERR_OK, "bignParamsDec-trunc");
	t = (octet*)co_m(k + 1);
	memcpy(t, der, k), t[k] = 0;
	CO_T(bignParamsDec(params1, t, k + 1) != ERR_OK, "bignParamsDec-longer");
	{
		size_t k1 = co_below(k);
		t = co_dup(der, k1);
		CO_T(bignParamsDec(params1, t, k1) != ERR_OK, "bignParamsDec-prefix");
	}
	return 0;
}

static void co_name(char dst[13], size_t len)
{
	size_t i;
	memset(dst, 0, 13);
	for (i = 0; i < len; ++i)
		dst[i] = "ABCDEFGHIJKLMNOPQRSTUVWXYZ0123456789"[co_below(36)];
}
static void co_date(octet d[6], unsigned yy, unsigned mm, unsigned dd)
{
	d[0] = (octet)(yy / 10), d[1] = (octet)(yy % 10);
	d[2] = (octet)(mm / 10), d[3] = (octet)(mm % 10);
	d[4] = (octet)(dd / 10), d[5] = (octet)(dd % 10);
}

/* btok-cvc-x seed pk nlen : pk in {64, 96, 128}, 8 <= nlen <= 12.
   Complements hl btok-cvc: certificates whose public key is rebuilt from the private key
   (pubkey_len == 0) are wrapped INTO exact buffers, pre-certificates, btokCVCLen on exact
   prefixes / extended buffers, unwrap with the certificate's own key */
static int co_btok_cvc_x(size_t np, const size_t* p)
{
	size_t pk = p[1], nl = p[2], k, k1, *pc = co_sz();
	bign_params* params;
	btok_cvc_t *cvc, *cvc1, *cvc2, *cvcp;
	octet *d, *q, *cert, *cert2, *t, *d2, *q2;
	void* rs;
	co_seed(p[0]);
	CO_T(co_bign_name(pk * 2) != 0 && nl >= 8 && nl <= 12, "bad-params");
	params = (bign_params*)co_m(sizeof(bign_params));
	CO_E(bignParamsStd(params, co_str(co_bign_name(pk * 2))), "bignParamsStd");
	rs = co_combo();
	d = (octet*)co_m(pk / 2), q = (octet*)co_m(pk);
	CO_E(bignKeypairGen(d, q, params, prngCOMBOStepR, rs), "bignKeypairGen");
	/* self-signed, public key not given */
	cvc = (btok_cvc_t*)co_m(sizeof(btok_cvc_t));
	memset(cvc, 0, sizeof(btok_cvc_t));
	co_name(cvc->authority, nl);
	memcpy(cvc->holder, cvc->authority, 13);
	co_date(cvc->from, 22, 7, 1), co_date(cvc->until, 39, 12, 31);
	if (p[0] & 1) memset(cvc->hat_eid, 0xEE, 5);
	if (p[0] & 2) memset(cvc->hat_esign, 0x77, 2);
	cvc1 = (btok_cvc_t*)co_dup(cvc, sizeof(btok_cvc_t));
	CO_E(btokCVCWrap(0, pc, cvc1, d, pk / 2), "btokCVCWrap-len");
	k = *pc;
	CO_T(cvc1->pubkey_len == pk, "btokCVCWrap-pubkey-len");
	CO_EQ(cvc1->pubkey, q, pk, "btokCVCWrap-pubkey");
	cert = (octet*)co_m(k);
	cvc1 = (btok_cvc_t*)co_dup(cvc, sizeof(btok_cvc_t));
	*pc = 0;
	CO_E(btokCVCWrap(cert, pc, cvc1, d, pk / 2), "btokCVCWrap");
	CO_T(*pc == k, "btokCVCWrap-count");
	CO_T(cvc1->sig_len == 3 * pk / 4, "btokCVCWrap-sig-len");
	/* cert_len may be null */
	cert2 = (octet*)co_m(k);
	cvc2 = (btok_cvc_t*)co_dup(cvc, sizeof(btok_cvc_t));
	CO_E(btokCVCWrap(cert2, 0, cvc2, d, pk / 2), "btokCVCWrap-nolen");
	CO_EQ(cert2, cert, k, "btokCVCWrap-det");
	/* length on exact / extended / truncated buffers */
	CO_T(btokCVCLen(cert, k) == k, "btokCVCLen");
	t = (octet*)co_m(k + 7);
	memcpy(t, cert, k), memset(t + k, 0xA5, 7);
	CO_T(btokCVCLen(t, k + 7) == k, "btokCVCLen-ext");
	t = co_dup(cert, k - 1);
	CO_T(btokCVCLen(t, k - 1) == SIZE_MAX, "btokCVCLen-trunc");
	for (k1 = 0; k1 < 6; ++k1)
	{
		t = co_dup(cert, k1);
		(void)btokCVCLen(t, k1);
	}
	/* unwrap: no key / explicit key / the certificate's own key */
	cvc2 = (btok_cvc_t*)co_m(sizeof(btok_cvc_t));
	CO_E(btokCVCUnwrap(cvc2, cert, k, 0, 0), "btokCVCUnwrap-nokey");
	CO_EQ(cvc2, cvc1, sizeof(btok_cvc_t), "btokCVCUnwrap-nokey-eq");
	cvc2 = (btok_cvc_t*)co_m(sizeof(btok_cvc_t));
	CO_E(btokCVCUnwrap(cvc2, cert, k, q, pk), "btokCVCUnwrap");
	CO_EQ(cvc2, cvc1, sizeof(btok_cvc_t), "btokCVCUnwrap-eq");
	cvc2 = (btok_cvc_t*)co_m(sizeof(btok_cvc_t));
	CO_E(btokCVCUnwrap(cvc2, cert, k, cvc2->pubkey, 0), "btokCVCUnwrap-ownkey");
	CO_EQ(cvc2, cvc1, sizeof(btok_cvc_t), "btokCVCUnwrap-ownkey-eq");
	CO_E(btokCVCMatch(cert, k, d, pk / 2), "btokCVCMatch");
	CO_E(btokCVCCheck(cvc2), "btokCVCCheck");
	t = co_dup(cert, k - 1);
	CO_T(btokCVCUnwrap(cvc2, t, k - 1, 0, 0) != ERR_OK, "btokCVCUnwrap-trunc");
	t = (octet*)co_m(k + 1);
	memcpy(t, cert, k), t[k] = 0;
	CO_T(btokCVCUnwrap(cvc2, t, k + 1, 0, 0) != ERR_OK, "btokCVCUnwrap-longer");
	/* pre-certificate (authority != holder, public key not given), then issued by the root */
	d2 = (octet*)co_m(pk / 2), q2 = (octet*)co_m(pk);
	CO_E(bignKeypairGen(d2, q2, params, prngCOMBOStepR, rs), "bignKeypairGen-2");
	cvcp = (btok_cvc_t*)co_m(sizeof(btok_cvc_t));
	memset(cvcp, 0, sizeof(btok_cvc_t));
	memcpy(cvcp->authority, cvc->holder, 13);
	co_name(cvcp->holder, 8 + co_below(5));
	co_date(cvcp->from, 23, 1, 1), co_date(cvcp->until, 29, 12, 31);
	cvc2 = (btok_cvc_t*)co_dup(cvcp, sizeof(btok_cvc_t));
	*pc = 0;
	CO_E(btokCVCWrap(0, pc, cvc2, d2, pk / 2), "btokCVCWrap-pre-len");
	k1 = *pc;
	cert2 = (octet*)co_m(k1);
	cvc2 = (btok_cvc_t*)co_dup(cvcp, sizeof(btok_cvc_t));
	CO_E(btokCVCWrap(cert2, pc, cvc2, d2, pk / 2), "btokCVCWrap-pre");
	CO_T(*pc == k1 && btokCVCLen(cert2, k1) == k1, "btokCVCWrap-pre-count");
	CO_EQ(cvc2->pubkey, q2, pk, "btokCVCWrap-pre-pubkey");
	CO_E(btokCVCMatch(cert2, k1, d2, pk / 2), "btokCVCMatch-pre");
	/* issue: cvc2 carries the public key now */
	*pc = 0;
	CO_E(btokCVCIss(0, pc, cvc2, cert, k, d, pk / 2), "btokCVCIss-len");
	k1 = *pc;
	cert2 = (octet*)co_m(k1);
	*pc = 0;
	CO_E(btokCVCIss(cert2, pc, cvc2, cert, k, d, pk / 2), "btokCVCIss");
	CO_T(*pc == k1, "btokCVCIss-count");
	CO_E(btokCVCVal(cert2, k1, cert, k, 0), "btokCVCVal");
	cvcp = (btok_cvc_t*)co_m(sizeof(btok_cvc_t));
	CO_E(btokCVCVal2(cvcp, cert2, k1, cvc1, 0), "btokCVCVal2");
	CO_EQ(cvcp, cvc2, sizeof(btok_cvc_t), "btokCVCVal2-eq");
	return 0;
}

/* bpki-privkey seed klen plen iter : klen in {24, 32, 48, 64}, iter >= 10000 */
static int co_bpki_privkey(size_t np, const size_t* p)
{
	size_t kl = p[1], pl = p[2], iter = p[3], k, *pc = co_sz(), *pk = co_sz();
	octet *key, *pwd, *salt, *epki, *key1, *t;
	co_seed(p[0]);
	key = co_r(kl), pwd = co_r(pl), salt = co_r(8);
	CO_E(bpkiPrivkeyWrap(0, pc, 0, kl, 0, pl, 0, iter), "bpkiPrivkeyWrap-len");
	k = *pc;
	epki = (octet*)co_m(k);
	*pc = 0;
	CO_E(bpkiPrivkeyWrap(epki, pc, key, kl, pwd, pl, salt, iter), "bpkiPrivkeyWrap");
	CO_T(*pc == k, "bpkiPrivkeyWrap-count");
	CO_T(derIsValid2(epki, k, 0x30) == TRUE, "derIsValid2");
	CO_E(bpkiPrivkeyUnwrap(0, pk, epki, k, pwd, pl), "bpkiPrivkeyUnwrap-len");
	CO_T(*pk == kl, "bpkiPrivkeyUnwrap-len-val");
	key1 = (octet*)co_m(*pk);
	*pk = 0;
	CO_E(bpkiPrivkeyUnwrap(key1, pk, epki, k, pwd, pl), "bpkiPrivkeyUnwrap");
	CO_T(*pk == kl, "bpkiPrivkeyUnwrap-count");
	CO_EQ(key1, key, kl, "bpki-privkey-roundtrip");
	/* truncated container */
	t = co_dup(epki, k - 1);
	CO_T(bpkiPrivkeyUnwrap(0, pk, t, k - 1, pwd, pl) != ERR_OK, "bpkiPrivkeyUnwrap-trunc");
	return 0;
}

/* bpki-share seed slen plen iter : slen in {17, 25, 33} */
static int co_bpki_share(size_t np, const size_t* p)
{
	size_t sl = p[1], pl = p[2], iter = p[3], k, *pc = co_sz(), *ps = co_sz();
	octet *share, *pwd, *salt, *epki, *share1, *t;
	co_seed(p[0]);
	share = co_r(sl), pwd = co_r(pl), salt = co_r(8);
	share[0] = (octet)(1 + co_below(16));
	CO_E(bpkiShareWrap(0, pc, 0, sl, 0, pl, 0, iter), "bpkiShareWrap-len");
	k = *pc;
	epki = (octet*)co_m(k);
	*pc = 0;
	CO_E(bpkiShareWrap(epki, pc, share, sl, pwd, pl, salt, iter), "bpkiShareWrap");
	CO_T(*pc == k, "bpkiShareWrap-count");
	CO_T(derIsValid2(epki, k, 0x30) == TRUE, "derIsValid2");
	CO_E(bpkiShareUnwrap(0, ps, epki, k, pwd, pl), "bpkiShareUnwrap-len");
	CO_T(*ps == sl, "bpkiShareUnwrap-len-val");
	share1 = (octet*)co_m(*ps);
	*ps = 0;
	CO_E(bpkiShareUnwrap(share1, ps, epki, k, pwd, pl), "bpkiShareUnwrap");
	CO_T(*ps == sl, "bpkiShareUnwrap-count");
	CO_EQ(share1, share, sl, "bpki-share-roundtrip");
	t = co_dup(epki, k - 1);
	CO_T(bpkiShareUnwrap(0, ps, t, k - 1, pwd, pl) != ERR_OK, "bpkiShareUnwrap-trunc");
	return 0;
}

/* bpki-csr seed : the request of test/crypto/bpki_test.c in an exact buffer */
static int co_bpki_csr(size_t np, const size_t* p)
{
	size_t k = 382, *pl = co_sz();
	octet *csr, *priv, *pub, *pub1, *t;
	bign_params* params;
	co_seed(p[0]);
	csr = co_hex(
		"3082017A30820134020100305F311530" "1306035504030C0C524F424552542053"
		"4D495448310E300C06035504040C0553" "4D495448310F300D060355042A0C0652"
		"4F42455254311830160603550405130F" "50415347422D35333333323434323831"
		"0B3009060355040613024742305D3018" "060A2A7000020022652D0201060A2A70"
		"00020022652D0301034100F64CDDFFE4" "D546EF484471583FAEBA9A38061084E2"
		"80BF996F90BA6AF0DB6620F59ABAA7AD" "29D4E7D1CA0C21DD9E32D485F9E74084"
		"1F4317CA9481503D1F1B50A06F301F06" "092A864886F70D01090731120C102F49"
		"4E464F3A65726970323334313233304C" "06092A864886F70D01090E313F303D30"
		"170603551D200410300E300C060A2A70" "00020022654E023D30220603551D1104"
		"1B30198117726F626572742E736D6974" "68406578616D706C652E756B300D0609"
		"2A7000020022652D0C050003310082B4" "F9F934E3FD457F5DF06AE63A88E722E3"
		"5D35F565551535BA94CEF9243011999D" "F2159E4F4BAC22AD8C3135A3BD26");
	CO_E(bpkiCSRUnwrap(0, 0, csr, k), "bpkiCSRUnwrap-00");
	CO_E(bpkiCSRUnwrap(0, pl, csr, k), "bpkiCSRUnwrap-len");
	CO_T(*pl == 64, "bpkiCSRUnwrap-len-val");
	pub = (octet*)co_m(*pl);
	*pl = 0;
	CO_E(bpkiCSRUnwrap(pub, pl, csr, k), "bpkiCSRUnwrap");
	CO_T(*pl == 64, "bpkiCSRUnwrap-count");
	pub1 = (octet*)co_m(64);
	CO_E(bpkiCSRUnwrap(pub1, 0, csr, k), "bpkiCSRUnwrap-nolen");
	CO_EQ(pub, pub1, 64, "bpkiCSRUnwrap-det");
	/* reissue on a fresh key pair */
	params = (bign_params*)co_m(sizeof(bign_params));
	CO_E(bignParamsStd(params, co_str(co_bign_name(128))), "bignParamsStd");
	priv = (octet*)co_m(32), pub1 = (octet*)co_m(64);
	CO_E(bignKeypairGen(priv, pub1, params, prngCOMBOStepR, co_combo()), "bignKeypairGen");
	CO_E(bpkiCSRRewrap(csr, k, priv, 32), "bpkiCSRRewrap");
	pub = (octet*)co_m(64);
	CO_E(bpkiCSRUnwrap(pub, pl, csr, k), "bpkiCSRUnwrap-2");
	CO_EQ(pub, pub1, 64, "bpkiCSRRewrap-pubkey");
	/* corrupted signature / truncated request */
	t = co_dup(csr, k);
	t[k - 1] ^= 1;
	CO_T(bpkiCSRUnwrap(0, 0, t, k) != ERR_OK, "bpkiCSRUnwrap-badsig");
	t = co_dup(csr, k - 1);
	CO_T(bpkiCSRUnwrap(0, 0, t, k - 1) != ERR_OK, "bpkiCSRUnwrap-trunc");
	return 0;
}

/* ---------------------------------------------------------------- dispatcher */

typedef int (*co_fn)(size_t np, const size_t* p);
static const struct { const char* name; co_fn fn; size_t np; } co_tab_[] = {
	{ "der-tl", co_der_tl, 3 },
	{ "der-enc", co_der_enc, 3 },
	{ "der-size", co_der_size, 3 },
	{ "der-uint", co_der_uint, 4 },
	{ "der-bit", co_der_bit, 3 },
	{ "der-oct", co_der_oct, 3 },
	{ "der-null", co_der_null, 1 },
	{ "der-oid", co_der_oid, 3 },
	{ "der-pstr", co_der_pstr, 3 },
	{ "der-seq", co_der_seq, 5 },
	{ "apdu-cmd", co_apdu_cmd, 3 },
	{ "apdu-resp", co_apdu_resp, 2 },
	{ "hex-rt", co_hex_rt, 2 },
	{ "hex-valid", co_hex_valid, 2 },
	{ "b64-rt", co_b64_rt, 2 },
	{ "b64-valid", co_b64_valid, 2 },
	{ "dec-u32", co_dec_u32, 3 },
	{ "dec-u64", co_dec_u64, 3 },
	{ "dec-check", co_dec_check, 2 },
	{ "str-ops", co_str_ops, 2 },
	{ "oid-der", co_oid_der, 3 },
	{ "oid-valid", co_oid_valid, 1 },
	{ "mem-ops", co_mem_ops, 2 },
	{ "mem-move", co_mem_move, 3 },
	{ "mem-join", co_mem_join, 3 },
	{ "mem-alloc", co_mem_alloc, 3 },
	{ "u16-ops", co_u16_ops, 3 },
	{ "u32-ops", co_u32_ops, 3 },
	{ "u64-ops", co_u64_ops, 3 },
	{ "ww-ops", co_ww_ops, 3 },
	{ "ww-bits", co_ww_bits, 3 },
	{ "ww-shift", co_ww_shift, 3 },
	{ "ww-naf", co_ww_naf, 4 },
	{ "ww-from", co_ww_from, 2 },
	{ "zz-add", co_zz_add, 3 },
	{ "zz-mod", co_zz_mod, 2 },
	{ "prng-combo", co_prng_combo, 2 },
	{ "prng-echo", co_prng_echo, 3 },
	{ "prng-stb", co_prng_stb, 3 },
	{ "blob-ops", co_blob_ops, 3 },
	{ "obj-ops", co_obj_ops, 3 },
	{ "bign-params-der", co_bign_params_der, 2 },
	{ "btok-cvc-x", co_btok_cvc_x, 3 },
	{ "bpki-privkey", co_bpki_privkey, 4 },
	{ "bpki-share", co_bpki_share, 4 },
	{ "bpki-csr", co_bpki_csr, 1 },
};

static int c07_core(int argc, char** argv)
{
	size_t i, k, p[8];
	if (argc < 2 || strcmp(argv[0], "co") != 0) return 0;
	for (k = 0; k < sizeof(co_tab_) / sizeof(co_tab_[0]); ++k)
		if (strcmp(argv[1], co_tab_[k].name) == 0) break;
	if (k == sizeof(co_tab_) / sizeof(co_tab_[0])) return 0;
	memset(p, 0, sizeof(p));
	if ((size_t)argc - 2 != co_tab_[k].np || co_tab_[k].np > 8)
	{
		printf("err bad-params %lu", (unsigned long)co_tab_[k].np);
		return 1;
	}
	for (i = 0; i < co_tab_[k].np; ++i)
		p[i] = (size_t)strtoull(argv[2 + i], 0, 10);
	co_pool_n_ = 0;
	if (co_tab_[k].fn(co_tab_[k].np, p) == 0)
		printf("ok");
	co_free_all();
	return 1;
}

#endif /* BEE2V_C07_CORE_H */

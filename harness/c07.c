/* C07 harness: memory bounds with EXACT-SIZE buffers, states and stacks.

   Ops (one per line):
     deep <sizefn> <a1> ... <ak>
         -> value of the real *_deep/*_keep function (generated dispatch c07v_eval)
     run <fn> <sizefn> <k> <a1..ak> <params...>
         every caller buffer is malloc'ed at exactly its documented size, the stack (or
         state) at exactly <sizefn>(a1..ak) octets (value taken from the REAL function),
         filled with a pattern; <fn> is called on valid random operands;
         -> "<size> ok"   (+ " hw=<high-water mark>" when C07_HW is set)
         A sanitizer report / ASSERT abort is the violation (the op line is the replay).
     hl <family> <params...>
         high-level API with exact-size caller buffers (c07_hl.h) -> "ok"
     blob <tok> ...
         an op sequence on two blob handles against the real blob.c (c07_blob.h); the visible state after
         every step is printed and compared with the Lean model; run in the hooked AND the page-rounded build
     tr <family> <seed> <params...>
         decoders on EXACT-size heap copies of every prefix of a valid encoding and of single-octet mutations
         (+-1..3, +0x80, with and without 1..3 octets cut off): an over-read is an ASan report (c07_trunc.h) -> "ok"
     co <family> <seed> <params...>
         core encoders/decoders/helpers and containers, two-pass (probe length, allocate exactly,
         decode/encode) with exact-size caller OUTPUT buffers (c07_core.h) -> "ok"
   Built with cfg asan-dbg / w32-dbg (ASSERTs active, exact-size blobs, ASan) and rel (valgrind). */
#include <bee2/defs.h>
#include <bee2/core/mem.h>
#include <bee2/core/util.h>
#include <bee2/core/word.h>
#include <bee2/core/prng.h>
#include <bee2/core/obj.h>
#include <bee2/math/ww.h>
#include <bee2/math/zz.h>
#include <bee2/math/pp.h>
#include <bee2/math/pri.h>
#include <bee2/math/qr.h>
#include <bee2/math/zm.h>
#include <bee2/math/gfp.h>
#include <bee2/math/gf2.h>
#include <bee2/math/ec.h>
#include <bee2/math/ecp.h>
#include <bee2/math/ec2.h>
#include <bee2/crypto/bign.h>
#include <bee2/crypto/dstu.h>
static void handle(int argc, char** argv);
#include "common.h"

int c07v_eval(const char* f, const size_t* a, int n, size_t* r);

/* ------------------------------------------------------------------ helpers */
static unsigned long long rs_ = 88172645463325252ULL;
static unsigned long long rnd(void) { rs_ ^= rs_ << 13; rs_ ^= rs_ >> 7; rs_ ^= rs_ << 17; return rs_; }
static void seed(unsigned long long s) { rs_ = s * 2654435761ULL + 88172645463325252ULL; rnd(); rnd(); }

/* exact-size allocation; size 0 -> pointer to the END of a 1-octet block (any access traps) */
typedef struct { unsigned char* base; unsigned char* p; size_t n; } buf_t;
static buf_t balloc(size_t n)
{
	buf_t b;
	b.base = (unsigned char*)malloc(n ? n : 1);
	if (!b.base) { fprintf(stderr, "oom\n"); exit(3); }
	b.p = n ? b.base : b.base + 1;
	b.n = n;
	return b;
}
static void bfree(buf_t b) { free(b.base); }

#define PAT(i) ((unsigned char)(0xA5 ^ ((i) * 167u + ((i) >> 8) * 31u)))
static buf_t stk(size_t n)
{
	buf_t b = balloc(n);
	size_t i;
	for (i = 0; i < n; ++i) b.p[i] = PAT(i);
	return b;
}
static size_t hw(buf_t b)
{
	size_t i = b.n;
	while (i && b.p[i - 1] == PAT(i - 1)) --i;
	return i;
}

/* random word arrays, exact size */
static word* ww(size_t n)
{
	word* a = (word*)malloc(n ? n * sizeof(word) : 1);
	size_t i;
	for (i = 0; i < n; ++i) a[i] = (word)rnd();
	return n ? a : (word*)((unsigned char*)a + 1);
}
/* OUTPUT buffers: exact size, NOT initialised by the harness.  When C07_SINK is set (valgrind run) every word
   buffer is written to /dev/null before it is freed: memcheck then reports an output octet that the
   library left uninitialised ("Syscall param write(buf) points to uninitialised byte(s)"). */
#include <unistd.h>
#include <fcntl.h>
static int sink_fd_ = -2;
static void sink(const void* p, size_t len)
{
	if (sink_fd_ == -2) sink_fd_ = getenv("C07_SINK") ? open("/dev/null", O_WRONLY) : -1;
	if (sink_fd_ >= 0 && len) { ssize_t r_ = write(sink_fd_, p, len); (void)r_; }
}
static word* wo(size_t n)
{
	word* a = (word*)malloc(n ? n * sizeof(word) : 1);
	return n ? a : (word*)((unsigned char*)a + 1);
}
static void wfree(word* a, size_t n) { sink(a, n * sizeof(word)); free(n ? (void*)a : (void*)((unsigned char*)a - 1)); }
/* top word non-zero */
static word* wwnz(size_t n) { word* a = ww(n); if (n && a[n - 1] == 0) a[n - 1] = 1; return a; }
static word* wwodd(size_t n) { word* a = wwnz(n); if (n) a[0] |= 1; return a; }
/* a < mod */
static word* wwlt(const word* mod, size_t n)
{
	word* a = ww(n);
	size_t i = n;
	/* clear from the top until below mod */
	while (wwCmp(a, mod, n) >= 0 && i) a[--i] = 0;
	return a;
}

static size_t sz_eval(const char* f, char** a, int k)
{
	size_t v[16], r = 0;
	int i;
	for (i = 0; i < k && i < 16; ++i) v[i] = (size_t)u_arg(a[i]);
	if (!c07v_eval(f, v, k, &r)) { printf("bad-op"); return (size_t)-1; }
	return r;
}

static void done(size_t size, buf_t st)
{
	if (getenv("C07_HW")) printf("%zu ok hw=%zu", size, hw(st));
	else printf("%zu ok", size);
	bfree(st);
}

#define NEED(fname) if (strcmp(sizefn, fname)) { printf("bad-op"); return; }
#define PA(i) ((size_t)u_arg(p[i]))

/* ------------------------------------------------------------------ math level */
#include "c07_math.h"
#ifdef C07_NO_HL
static int c07_hl(int argc, char** argv) { (void)argc; (void)argv; return 0; }
#else
#include "c07_hl.h"
#endif
#include "c07_blob.h"
#ifdef C07_NO_TRUNC
static int c07_trunc(int argc, char** argv) { (void)argc; (void)argv; return 0; }
#endif
#ifdef C07_NO_CORE
static int c07_core(int argc, char** argv) { (void)argc; (void)argv; return 0; }
#else
#include "c07_core.h"
#endif
#ifndef C07_NO_TRUNC
#include "c07_trunc.h"
#endif

static void handle(int argc, char** argv)
{
	static int once_ = 0;
	if (!once_) { setvbuf(stdout, NULL, _IOLBF, 0); once_ = 1; }   /* every completed op is visible even if a later one aborts */
	if (argc >= 2 && !strcmp(argv[0], "deep"))
	{
		size_t r = sz_eval(argv[1], argv + 2, argc - 2);
		if (r != (size_t)-1 || argc > 2) { if (r != (size_t)-1) printf("%zu", r); }
		else printf("bad-op");
		return;
	}
	if (argc >= 4 && !strcmp(argv[0], "run"))
	{
		int k = (int)u_arg(argv[3]);
		size_t size;
		buf_t st;
		if (k < 0 || 4 + k > argc) { printf("bad-op"); return; }
		size = sz_eval(argv[2], argv + 4, k);
		if (size == (size_t)-1) return;
		st = stk(size);
		if (!c07_math(argv[1], argv[2], st, size, argc - 4 - k, argv + 4 + k))
		{
			bfree(st);
			printf("bad-op");
			return;
		}
		done(size, st);
		return;
	}
	if (argc >= 2 && !strcmp(argv[0], "hl"))
	{
		if (!c07_hl(argc, argv)) printf("bad-op");
		return;
	}
	if (argc >= 2 && !strcmp(argv[0], "blob"))
	{
		if (!c07_blob(argc, argv)) printf("bad-op");
		return;
	}
	if (argc >= 2 && !strcmp(argv[0], "tr"))
	{
		if (!c07_trunc(argc, argv)) printf("bad-op");
		return;
	}
	if (argc >= 2 && !strcmp(argv[0], "co"))
	{
		if (!c07_core(argc, argv)) printf("bad-op");
		return;
	}
	printf("bad-op");
}

/* c07_trunc.h -- C07 harness part: OVER-READS of the decoders on TRUNCATED / INCONSISTENT input.

   Every decoder of the public API that takes (const octet* buf, size_t count) or a NUL-terminated
   string is run on EXACT-SIZE heap copies (malloc(count), nothing behind; count == 0 -> pointer to
   the END of a 1-octet block) of
     (a) every PREFIX of a valid encoding (lengths 0 .. count - 1, and the full code),
     (b) MECHANICALLY derived inconsistent codes: for every octet position i of the valid code and
         every delta in {+1, +2, +3, -1, -2, +0x80}: copy, octet i += delta, decode with the original
         count; the same with the last 1, 2, 3 octets cut off (count - 1 .. count - 3).
   For strings the block has strlen + 1 octets and always ends with the NUL.
   The decoder's result does not matter (error and success are both fine); an over-read is an ASan
   report (abort), an internal ASSERT aborts too.  Whenever the decoder ACCEPTS the input and
   reports a consumed length / a value position, that length must be <= count and the value must
   lie inside the buffer (the reported value octets are re-read by the harness): "err <what> <code>"
   otherwise.  Only the CONTENT is adversarial: every documented \pre holds (valid pointers,
   count octets readable; hexTo / b64To / decTo* / decLuhn* / decDamm* are called only on strings
   their IsValid function accepts).  OUTPUT buffers are generous (the target is the input side)
   and every decoder is called with null outputs too where the API allows it.

   Long codes / slow decoders: positions are sampled (all of the first and last 16 + every k-th,
   the phase of "every k-th" depends on the seed).

   Included by /verif/harness/c07.c after c07_hl.h and c07_core.h.

     static int c07_trunc(int argc, char** argv);
       argv[0] == "tr", argv[1] == family, argv[2..] == decimal parameters (first = seed).
       Returns 0 when the family is unknown (prints nothing); otherwise prints (no newline)
       "ok" or "err <what> <code>" and returns 1.

   Families (parameters after the seed; ops are listed in gen/c07_trunc_ops.txt):
     apdu-cmd cdf_len rdf_len | apdu-resp rdf_len
     der-tl tag len | der-oct tag len | der-size tag val | der-uint tag len mode | der-bit tag bits |
     der-null | der-oid k narcs | der-pstr tag len | der-seq tag n len      (all der decoders on each)
     oid-der k narcs | hex n | b64 n | dec n
     bign-params-der l | btok-cvc pk nlen | btok-sm kind prot cdf_len rdf_len |
     bpki kind len plen | bign-kwrap l len | belt-kwp n klen | belt-dwp n1 n2 klen | belt-che n1 n2 klen
*/
#ifndef BEE2V_C07_TRUNC_H
#define BEE2V_C07_TRUNC_H

#include <stdio.h>
#include <stdlib.h>
#include <string.h>
#include <bee2/defs.h>
#include <bee2/core/err.h>
#include <bee2/core/mem.h>
#include <bee2/core/str.h>
#include <bee2/core/hex.h>
#include <bee2/core/b64.h>
#include <bee2/core/dec.h>
#include <bee2/core/oid.h>
#include <bee2/core/der.h>
#include <bee2/core/apdu.h>
#include <bee2/core/prng.h>
#include <bee2/core/util.h>
#include <bee2/crypto/belt.h>
#include <bee2/crypto/bign.h>
#include <bee2/crypto/btok.h>
#include <bee2/crypto/bpki.h>

/* ---------------------------------------------------------------- infrastructure */

#define TR_POOL 1024
static void* tr_pool_[TR_POOL];		/* set-up objects of one op (bases); never passed to the library */
static size_t tr_pool_n_;

/* exact-size heap block; n == 0 -> pointer to the END of a 1-octet block */
static void* tr_m(size_t n)
{
	unsigned char* p = (unsigned char*)malloc(n ? n : 1);
	if (!p || tr_pool_n_ >= TR_POOL) { fprintf(stderr, "tr: out of memory\n"); abort(); }
	tr_pool_[tr_pool_n_++] = p;
	return n ? p : p + 1;
}
static void tr_free_all(void)
{
	while (tr_pool_n_) free(tr_pool_[--tr_pool_n_]);
}

/* xorshift64* */
static unsigned long long tr_s_;
static void tr_seed(size_t seed)
{
	tr_s_ = 0x9E3779B97F4A7C15ull ^ ((unsigned long long)seed * 0xD1342543DE82EF95ull);
	if (!tr_s_) tr_s_ = 1;
}
static unsigned long long tr_next(void)
{
	tr_s_ ^= tr_s_ >> 12, tr_s_ ^= tr_s_ << 25, tr_s_ ^= tr_s_ >> 27;
	return tr_s_ * 0x2545F4914F6CDD1Dull;
}
static size_t tr_below(size_t n) { return n ? (size_t)((tr_next() >> 16) % n) : 0; }
static octet* tr_r(size_t n)
{
	octet* p = (octet*)tr_m(n);
	size_t i;
	for (i = 0; i < n; ++i) p[i] = (octet)(tr_next() >> 32);
	return p;
}
static octet* tr_dup(const void* src, size_t n)
{
	octet* p = (octet*)tr_m(n);
	if (n) memcpy(p, src, n);
	return p;
}
static char* tr_str(const char* s) { return (char*)tr_dup(s, strlen(s) + 1); }
static void* tr_combo(void)
{
	void* st = tr_m(prngCOMBO_keep());
	prngCOMBOStart(st, (u32)tr_next());
	return st;
}

/* first failed self-check of the op */
static const char* tr_err_;
static unsigned long tr_code_;
static size_t tr_calls_;		/* decoder calls of the op (statistics, TR_STAT) */
static void tr_fail(const char* what, unsigned long code)
{
	if (!tr_err_) tr_err_ = what, tr_code_ = code;
}
/* consumed length r (SIZE_MAX == rejected) must not exceed count */
#define TR_LE(r, count, what) do { size_t r_ = (r); ++tr_calls_; \
	if (r_ != SIZE_MAX && r_ > (count)) tr_fail(what, (unsigned long)r_); } while (0)
#define TR_T(cond, what) do { if (!(cond)) tr_fail(what, (unsigned long)__LINE__); } while (0)
/* set-up (valid-input) calls */
#define TR_E(call, what) do { err_t e_ = (call); if (e_ != ERR_OK) { tr_fail(what, (unsigned long)e_); return; } } while (0)
#define TR_S(cond, what) do { if (!(cond)) { tr_fail(what, (unsigned long)__LINE__); return; } } while (0)

/* a value [l]v reported by a decoder must lie inside [c]b; it is re-read (ASan traps otherwise) */
static volatile unsigned tr_sink_;
static void tr_touch(const octet* b, size_t c, const octet* v, size_t l, const char* what)
{
	size_t i;
	unsigned s = 0;
	if (v < b || (size_t)(v - b) > c || l > c - (size_t)(v - b)) { tr_fail(what, (unsigned long)l); return; }
	for (i = 0; i < l; ++i) s += v[i];
	tr_sink_ += s;
}

/* decoder callback: [c]b is an exact block (for strings: c == strlen-bound, b[c] == 0 is readable) */
typedef void (*tr_fn)(const octet* b, size_t c, void* ctx);

typedef struct {
	tr_fn f;
	void* ctx;
	int str;			/* NUL-terminated: the block has n + 1 octets */
	size_t pbudget;		/* about how many prefix lengths */
	size_t mbudget;		/* about how many mutation positions */
	size_t minlen;		/* shortest count the API documents as admissible */
	size_t phase;
	const octet* heavy;	/* optional map [n]: non-zero -> a full-length code modified here reaches an
						   expensive computation (PBKDF2): only hbudget such positions, one delta each */
	size_t hbudget;
} tr_sw;

static void tr_run(const tr_sw* sw, const octet* src, size_t n, size_t pos, int delta)
{
	size_t an = n + (sw->str ? 1 : 0);
	unsigned char* base = (unsigned char*)malloc(an ? an : 1);
	unsigned char* p = an ? base : base + 1;
	if (!base) { fprintf(stderr, "tr: out of memory\n"); abort(); }
	if (n) memcpy(p, src, n);
	if (sw->str) p[n] = 0;
	if (pos < n) p[pos] = (unsigned char)(p[pos] + delta);
	sw->f(p, n, sw->ctx);
	free(base);
}

static int tr_pick(size_t i, size_t n, size_t budget, size_t phase)
{
	size_t edge, stride;
	if (n <= budget) return 1;
	edge = budget / 4 < 16 ? budget / 4 : 16;
	if (i < edge || i + edge >= n) return 1;
	if (budget <= 2 * edge) return 0;
	stride = (n - 2 * edge) / (budget - 2 * edge) + 1;
	return (i + phase) % stride == 0;
}

static void tr_sweep(const tr_sw* sw, const octet* src, size_t n)
{
	static const int deltas[6] = { 1, 2, 3, -1, -2, 0x80 };
	size_t k, i, d, cut, nh = 0, hstride = 1, hseen = 0;
	if (sw->heavy)
	{
		for (i = 0; i < n; ++i) nh += sw->heavy[i] ? 1 : 0;
		hstride = sw->hbudget ? (nh + sw->hbudget - 1) / sw->hbudget : nh + 1;
		if (hstride == 0) hstride = 1;
	}
	/* the valid code itself, then (a) every prefix */
	tr_run(sw, src, n, n, 0);
	for (k = 0; k < n; ++k)
		if (k >= sw->minlen && tr_pick(k, n, sw->pbudget, sw->phase))
			tr_run(sw, src, k, k, 0);
	/* (b) inconsistent codes */
	for (i = 0; i < n; ++i)
	{
		int hv = 0;		/* 0: not heavy, 1: heavy and selected, 2: heavy, full-length codes skipped */
		if (!tr_pick(i, n, sw->mbudget, sw->phase))
			continue;
		if (sw->heavy && sw->heavy[i])
			hv = (sw->hbudget && (hseen++ + sw->phase) % hstride == 0) ? 1 : 2;
		for (d = 0; d < 6; ++d)
			for (cut = 0; cut <= 3; ++cut)
			{
				if (cut > n || n - cut < sw->minlen || i >= n - cut)
					break;
				if (cut == 0 && (hv == 2 || hv == 1 && d != (i + sw->phase) % 6))
					continue;
				tr_run(sw, src, n - cut, i, deltas[d]);
			}
	}
}

/* ---------------------------------------------------------------- apdu */

typedef struct { void* out; void* st; void* st0; int resp; } tr_apdu_ctx;

static void tr_apdu_cmd_f(const octet* b, size_t c, void* vctx)
{
	tr_apdu_ctx* x = (tr_apdu_ctx*)vctx;
	apdu_cmd_t* cmd = (apdu_cmd_t*)x->out;
	size_t r, r1;
	r = apduCmdDec(0, b, c);
	++tr_calls_;
	if (r != SIZE_MAX)
		TR_T(r >= sizeof(apdu_cmd_t) && c >= 4 && r - sizeof(apdu_cmd_t) <= c - 4, "apduCmdDec-len");
	r1 = apduCmdDec(cmd, b, c);
	++tr_calls_;
	TR_T(r1 == r, "apduCmdDec-det");
	if (r1 != SIZE_MAX)
		TR_T(cmd->cdf_len == r1 - sizeof(apdu_cmd_t) && apduCmdIsValid(cmd), "apduCmdDec-cmd");
}

static void tr_apdu_resp_f(const octet* b, size_t c, void* vctx)
{
	tr_apdu_ctx* x = (tr_apdu_ctx*)vctx;
	apdu_resp_t* resp = (apdu_resp_t*)x->out;
	size_t r, r1;
	r = apduRespDec(0, b, c);
	++tr_calls_;
	if (r != SIZE_MAX)
		TR_T(r >= sizeof(apdu_resp_t) && c >= 2 && r - sizeof(apdu_resp_t) == c - 2, "apduRespDec-len");
	r1 = apduRespDec(resp, b, c);
	++tr_calls_;
	TR_T(r1 == r, "apduRespDec-det");
	if (r1 != SIZE_MAX)
		TR_T(resp->rdf_len == c - 2, "apduRespDec-resp");
}

static apdu_cmd_t* tr_mk_cmd(size_t cl, size_t rl, int prot)
{
	apdu_cmd_t* cmd = (apdu_cmd_t*)tr_m(sizeof(apdu_cmd_t) + cl);
	size_t i;
	memset(cmd, 0, sizeof(apdu_cmd_t));
	cmd->cla = (octet)tr_next(), cmd->ins = (octet)tr_next();
	cmd->p1 = (octet)tr_next(), cmd->p2 = (octet)tr_next();
	if (prot >= 0) cmd->cla &= 0xFB;
	cmd->cdf_len = cl, cmd->rdf_len = rl;
	for (i = 0; i < cl; ++i) cmd->cdf[i] = (octet)(tr_next() >> 32);
	return cmd;
}
static apdu_resp_t* tr_mk_resp(size_t rl)
{
	apdu_resp_t* resp = (apdu_resp_t*)tr_m(sizeof(apdu_resp_t) + rl);
	size_t i;
	memset(resp, 0, sizeof(apdu_resp_t));
	resp->sw1 = (octet)tr_next(), resp->sw2 = (octet)tr_next(), resp->rdf_len = rl;
	for (i = 0; i < rl; ++i) resp->rdf[i] = (octet)(tr_next() >> 32);
	return resp;
}

/* apdu-cmd seed cdf_len rdf_len */
static void tr_apdu_cmd(const size_t* p)
{
	size_t cl = p[1], rl = p[2], c;
	apdu_cmd_t* cmd;
	octet* apdu;
	tr_apdu_ctx x[1];
	tr_sw sw[1];
	TR_S(cl <= 65535 && rl <= 65536, "bad-params");
	cmd = tr_mk_cmd(cl, rl, -1);
	TR_S(apduCmdIsValid(cmd), "apduCmdIsValid");
	c = apduCmdEnc(0, cmd);
	TR_S(c != SIZE_MAX, "apduCmdEnc-len");
	apdu = (octet*)tr_m(c);
	TR_S(apduCmdEnc(apdu, cmd) == c, "apduCmdEnc");
	memset(x, 0, sizeof(x));
	x->out = tr_m(sizeof(apdu_cmd_t) + 65536 + 16);
	memset(sw, 0, sizeof(sw));
	sw->f = tr_apdu_cmd_f, sw->ctx = x, sw->pbudget = 400, sw->mbudget = 330, sw->phase = p[0];
	TR_S(apduCmdDec(0, apdu, c) == sizeof(apdu_cmd_t) + cl, "apduCmdDec");
	tr_sweep(sw, apdu, c);
}

/* apdu-resp seed rdf_len */
static void tr_apdu_resp(const size_t* p)
{
	size_t rl = p[1], c;
	apdu_resp_t* resp;
	octet* apdu;
	tr_apdu_ctx x[1];
	tr_sw sw[1];
	TR_S(rl <= 65536, "bad-params");
	resp = tr_mk_resp(rl);
	c = apduRespEnc(0, resp);
	TR_S(c == rl + 2, "apduRespEnc-len");
	apdu = (octet*)tr_m(c);
	TR_S(apduRespEnc(apdu, resp) == c, "apduRespEnc");
	memset(x, 0, sizeof(x));
	x->out = tr_m(sizeof(apdu_resp_t) + c + 16);
	memset(sw, 0, sizeof(sw));
	sw->f = tr_apdu_resp_f, sw->ctx = x, sw->pbudget = 400, sw->mbudget = c > 4096 ? 64 : 330;
	sw->phase = p[0];
	tr_sweep(sw, apdu, c);
}

/* ---------------------------------------------------------------- der */

typedef struct {
	u32 tag;			/* expected tag */
	size_t len;			/* expected value length (derDec3, OCTDec2, UINTDec2) */
	size_t bits;		/* expected bit length (BITDec2) */
	size_t sz;			/* expected SIZE value */
	const octet* val;	/* [vlen] expected value (derDec4) */
	size_t vlen;
	const char* oid;	/* expected oid */
	octet* out;			/* generous output */
} tr_der_ctx;

static void tr_der_f(const octet* b, size_t c, void* vctx)
{
	tr_der_ctx* x = (tr_der_ctx*)vctx;
	u32 t = 0;
	size_t l = 0, r, r1, sz = 0;
	const octet* v = 0;
	der_anchor_t an[1];
	/* TL, validity */
	r = derTLDec(0, 0, b, c); TR_LE(r, c, "derTLDec-00");
	r1 = derTLDec(&t, &l, b, c); TR_LE(r1, c, "derTLDec");
	TR_T(r == r1, "derTLDec-det");
	if (derIsValid(b, c))
		TR_T(r1 != SIZE_MAX && l == c - r1, "derIsValid-len");
	if (derIsValid2(b, c, x->tag))
		TR_T(r1 != SIZE_MAX && t == x->tag && l == c - r1, "derIsValid2-len");
	(void)derIsValid2(b, c, 0x30);
	(void)derStartsWith(b, c, x->tag);
	(void)derStartsWith(b, c, 0x7F21);
	tr_calls_ += 5;
	/* basic decoders */
	r = derDec(0, 0, 0, b, c); TR_LE(r, c, "derDec-000");
	r1 = derDec(&t, &v, &l, b, c); TR_LE(r1, c, "derDec");
	TR_T(r == r1, "derDec-det");
	if (r1 != SIZE_MAX)
	{
		tr_touch(b, c, v, l, "derDec-val");
		TR_T((size_t)(v - b) + l == r1, "derDec-sum");
	}
	r = derDec2(0, 0, b, c, x->tag); TR_LE(r, c, "derDec2-00");
	r = derDec2(&v, &l, b, c, x->tag); TR_LE(r, c, "derDec2");
	if (r != SIZE_MAX) tr_touch(b, c, v, l, "derDec2-val");
	r = derDec3(0, b, c, x->tag, x->len); TR_LE(r, c, "derDec3-0");
	r = derDec3(&v, b, c, x->tag, x->len); TR_LE(r, c, "derDec3");
	if (r != SIZE_MAX) tr_touch(b, c, v, x->len, "derDec3-val");
	r = derDec4(b, c, x->tag, x->val, x->vlen); TR_LE(r, c, "derDec4");
	r = derDec4(b, c, 0x05, 0, 0); TR_LE(r, c, "derNULLDec");
	/* SIZE */
	r = derTSIZEDec(0, b, c, x->tag); TR_LE(r, c, "derTSIZEDec-0");
	r = derTSIZEDec(&sz, b, c, x->tag); TR_LE(r, c, "derTSIZEDec");
	r = derTSIZEDec2(b, c, x->tag, x->sz); TR_LE(r, c, "derTSIZEDec2");
	r = derSIZEDec(&sz, b, c); TR_LE(r, c, "derSIZEDec");
	/* UINT */
	r = derTUINTDec(0, 0, b, c, x->tag); TR_LE(r, c, "derTUINTDec-00");
	r = derTUINTDec(0, &l, b, c, x->tag); TR_LE(r, c, "derTUINTDec-0");
	if (r != SIZE_MAX) TR_T(l <= c, "derTUINTDec-len");
	r = derTUINTDec(x->out, &l, b, c, x->tag); TR_LE(r, c, "derTUINTDec");
	r = derTUINTDec2(0, b, c, x->tag, x->len); TR_LE(r, c, "derTUINTDec2-0");
	r = derTUINTDec2(x->out, b, c, x->tag, x->len); TR_LE(r, c, "derTUINTDec2");
	r = derUINTDec(x->out, &l, b, c); TR_LE(r, c, "derUINTDec");
	/* BIT */
	r = derTBITDec(0, 0, b, c, x->tag); TR_LE(r, c, "derTBITDec-00");
	r = derTBITDec(x->out, &l, b, c, x->tag); TR_LE(r, c, "derTBITDec");
	if (r != SIZE_MAX) TR_T((l + 7) / 8 <= c, "derTBITDec-len");
	r = derTBITDec2(0, b, c, x->tag, x->bits); TR_LE(r, c, "derTBITDec2-0");
	r = derTBITDec2(x->out, b, c, x->tag, x->bits); TR_LE(r, c, "derTBITDec2");
	r = derBITDec(x->out, &l, b, c); TR_LE(r, c, "derBITDec");
	/* OCT */
	r = derTOCTDec(0, 0, b, c, x->tag); TR_LE(r, c, "derTOCTDec-00");
	r = derTOCTDec(x->out, &l, b, c, x->tag); TR_LE(r, c, "derTOCTDec");
	if (r != SIZE_MAX) TR_T(l <= c, "derTOCTDec-len");
	r = derTOCTDec2(0, b, c, x->tag, x->len); TR_LE(r, c, "derTOCTDec2-0");
	r = derTOCTDec2(x->out, b, c, x->tag, x->len); TR_LE(r, c, "derTOCTDec2");
	r = derOCTDec(x->out, &l, b, c); TR_LE(r, c, "derOCTDec");
	r = derOCTDec2(x->out, b, c, x->len); TR_LE(r, c, "derOCTDec2");
	/* OID */
	r = derOIDDec(0, 0, b, c); TR_LE(r, c, "derOIDDec-00");
	r = derOIDDec(0, &l, b, c); TR_LE(r, c, "derOIDDec-0");
	if (r != SIZE_MAX) TR_T(l <= 4 * c + 8, "derOIDDec-len");
	r1 = derOIDDec((char*)x->out, &l, b, c); TR_LE(r1, c, "derOIDDec");
	TR_T(r == r1, "derOIDDec-det");
	if (r1 != SIZE_MAX)
	{
		TR_T(strlen((char*)x->out) == l && oidIsValid((char*)x->out), "derOIDDec-oid");
		TR_T(derOIDDec2(b, c, (char*)x->out) == r1, "derOIDDec2-self");
	}
	r = derOIDDec2(b, c, x->oid); TR_LE(r, c, "derOIDDec2");
	r = oidFromDER(0, b, c);
	++tr_calls_;
	if (r != SIZE_MAX) TR_T(r <= 4 * c + 8, "oidFromDER-len");
	r1 = oidFromDER((char*)x->out, b, c);
	++tr_calls_;
	TR_T(r == r1, "oidFromDER-det");
	/* PSTR */
	r = derTPSTRDec(0, 0, b, c, x->tag); TR_LE(r, c, "derTPSTRDec-00");
	r = derTPSTRDec((char*)x->out, &l, b, c, x->tag); TR_LE(r, c, "derTPSTRDec");
	if (r != SIZE_MAX) TR_T(l <= c && x->out[l] == 0, "derTPSTRDec-len");
	r = derPSTRDec((char*)x->out, &l, b, c); TR_LE(r, c, "derPSTRDec");
	/* SEQ: walk the nested codes the way the library's containers do */
	r = derTSEQDecStart(an, b, c, x->tag); TR_LE(r, c, "derTSEQDecStart");
	if (r == SIZE_MAX)
	{
		r = derTSEQDecStart(an, b, c, 0x30); TR_LE(r, c, "derSEQDecStart");
	}
	if (r != SIZE_MAX && r <= c)
	{
		const octet* ptr = b + r;
		size_t rem = c - r, n;
		for (n = 0; n < 64; ++n)
		{
			r = derDec(&t, &v, &l, ptr, rem);
			++tr_calls_;
			if (r == SIZE_MAX) break;
			if (r > rem) { tr_fail("derDec-nested", (unsigned long)r); break; }
			tr_touch(ptr, rem, v, l, "derDec-nested-val");
			ptr += r, rem -= r;
		}
		(void)derTSEQDecStop(ptr, an);
		(void)derTSEQDecStop(b + c, an);
		tr_calls_ += 2;
	}
}

/* valid long-form / short-form tags; 0 when the parameter is not a valid tag */
static int tr_tag_ok(u32 tag) { return derTLEnc(0, tag, 0) != SIZE_MAX; }

static const char* tr_oids_[] = {
	"1.2.112.0.2.0.34.101.45.3.1", "1.2.112.0.2.0.34.101.31.81", "2.5.4.3", "0.0", "0.39", "1.0",
	"2.999.4294967295", "2.4294967215", "1.2.840.113549.1.5.13", "2.16.840.1.101.3.4.2.1",
	"1.39.0.127.128.16383.16384.2097151.2097152.268435455.268435456",
};
#define TR_NOIDS (sizeof(tr_oids_) / sizeof(tr_oids_[0]))

/* oid number k of the table, or (k >= table size) a random one with narcs arcs */
static char* tr_oid(size_t k, size_t narcs)
{
	char* s;
	size_t i, pos;
	unsigned d1;
	if (k < TR_NOIDS) return tr_str(tr_oids_[k]);
	if (narcs < 2) narcs = 2;
	s = (char*)tr_m(narcs * 11 + 1);
	d1 = (unsigned)tr_below(3);
	pos = (size_t)sprintf(s, "%u.%u", d1, (unsigned)(d1 < 2 ? tr_below(40) : tr_below(200)));
	for (i = 2; i < narcs; ++i)
	{
		u32 a = (u32)tr_next();
		a >>= tr_below(32);
		pos += (size_t)sprintf(s + pos, ".%lu", (unsigned long)a);
	}
	return tr_str(s);
}

static void tr_der_go(tr_der_ctx* x, const octet* der, size_t c, size_t seed)
{
	tr_sw sw[1];
	if (!x->oid) x->oid = "1.2.112.0.2.0.34.101.45.3.1";
	if (!x->val) x->val = (const octet*)tr_m(0), x->vlen = 0;
	x->out = (octet*)tr_m(5 * c + 64);
	memset(sw, 0, sizeof(sw));
	sw->f = tr_der_f, sw->ctx = x, sw->phase = seed;
	sw->pbudget = c <= 4096 ? 600 : 96, sw->mbudget = c <= 330 ? 330 : c <= 4096 ? 96 : 40;
	TR_S(derIsValid(der, c), "derIsValid");
	tr_sweep(sw, der, c);
}

/* der-tl seed tag len : the TL prefix alone (a code whose value is missing completely) */
static void tr_der_tl(const size_t* p)
{
	u32 tag = (u32)p[1];
	size_t len = p[2], c;
	octet* der;
	tr_der_ctx x[1];
	tr_sw sw[1];
	TR_S(tr_tag_ok(tag), "bad-tag");
	c = derTLEnc(0, tag, len);
	TR_S(c != SIZE_MAX, "derTLEnc-len");
	der = (octet*)tr_m(c);
	TR_S(derTLEnc(der, tag, len) == c, "derTLEnc");
	memset(x, 0, sizeof(x));
	x->tag = tag, x->len = len, x->bits = 8 * len, x->sz = len;
	x->oid = "1.2.112.0.2.0.34.101.45.3.1";
	x->val = (const octet*)tr_m(0), x->vlen = 0;
	x->out = (octet*)tr_m(5 * c + 64);
	memset(sw, 0, sizeof(sw));
	sw->f = tr_der_f, sw->ctx = x, sw->pbudget = 64, sw->mbudget = 64, sw->phase = p[0];
	tr_sweep(sw, der, c);
}

/* der-oct seed tag len */
static void tr_der_oct(const size_t* p)
{
	u32 tag = (u32)p[1];
	size_t len = p[2], c;
	octet *der, *val;
	tr_der_ctx x[1];
	TR_S(tr_tag_ok(tag) && len <= 70000, "bad-params");
	val = tr_r(len);
	c = derEnc(0, tag, val, len);
	TR_S(c != SIZE_MAX, "derEnc-len");
	der = (octet*)tr_m(c);
	TR_S(derEnc(der, tag, val, len) == c, "derEnc");
	memset(x, 0, sizeof(x));
	x->tag = tag, x->len = len, x->bits = len ? 8 * (len - 1) : 0, x->sz = len, x->val = val, x->vlen = len;
	tr_der_go(x, der, c, p[0]);
}

/* der-size seed tag val */
static void tr_der_size(const size_t* p)
{
	u32 tag = (u32)p[1];
	size_t val = p[2], c;
	octet* der;
	tr_der_ctx x[1];
	TR_S(tr_tag_ok(tag), "bad-tag");
	c = derTSIZEEnc(0, tag, val);
	TR_S(c != SIZE_MAX, "derTSIZEEnc-len");
	der = (octet*)tr_m(c);
	TR_S(derTSIZEEnc(der, tag, val) == c, "derTSIZEEnc");
	memset(x, 0, sizeof(x));
	x->tag = tag, x->sz = val, x->len = c - derTLEnc(0, tag, 1), x->bits = 8;
	TR_S(derTSIZEDec2(der, c, tag, val) == c, "derTSIZEDec2");
	tr_der_go(x, der, c, p[0]);
}

/* der-uint seed tag len mode : mode 0 -> top bit set (extra zero octet), 1 -> top bit clear, 2 -> zeros */
static void tr_der_uint(const size_t* p)
{
	u32 tag = (u32)p[1];
	size_t len = p[2], mode = p[3], c;
	octet *der, *val;
	tr_der_ctx x[1];
	TR_S(tr_tag_ok(tag) && len >= 1 && len <= 70000, "bad-params");
	val = tr_r(len);
	if (mode == 0) val[len - 1] |= 0x80;
	else if (mode == 1) val[len - 1] &= 0x7F, val[len - 1] |= 0x01;
	else memset(val, 0, len);
	c = derTUINTEnc(0, tag, val, len);
	TR_S(c != SIZE_MAX, "derTUINTEnc-len");
	der = (octet*)tr_m(c);
	TR_S(derTUINTEnc(der, tag, val, len) == c, "derTUINTEnc");
	memset(x, 0, sizeof(x));
	x->tag = tag, x->len = mode == 2 ? 1 : len, x->bits = 8 * len, x->val = val, x->vlen = len;
	TR_S(derTUINTDec2(0, der, c, tag, x->len) == c, "derTUINTDec2");
	tr_der_go(x, der, c, p[0]);
}

/* der-bit seed tag bits */
static void tr_der_bit(const size_t* p)
{
	u32 tag = (u32)p[1];
	size_t bits = p[2], no = (bits + 7) / 8, c;
	octet *der, *val;
	tr_der_ctx x[1];
	TR_S(tr_tag_ok(tag) && bits <= 8 * 70000, "bad-params");
	val = tr_r(no);
	if (bits % 8) val[no - 1] &= (octet)(0xFF << (8 - bits % 8));
	c = derTBITEnc(0, tag, val, bits);
	TR_S(c != SIZE_MAX, "derTBITEnc-len");
	der = (octet*)tr_m(c);
	TR_S(derTBITEnc(der, tag, val, bits) == c, "derTBITEnc");
	memset(x, 0, sizeof(x));
	x->tag = tag, x->len = no + 1, x->bits = bits, x->val = val, x->vlen = no;
	TR_S(derTBITDec2(0, der, c, tag, bits) == c, "derTBITDec2");
	tr_der_go(x, der, c, p[0]);
}

/* der-null seed */
static void tr_der_null(const size_t* p)
{
	size_t c = derNULLEnc(0);
	octet* der;
	tr_der_ctx x[1];
	TR_S(c == 2, "derNULLEnc-len");
	der = (octet*)tr_m(c);
	TR_S(derNULLEnc(der) == c, "derNULLEnc");
	memset(x, 0, sizeof(x));
	x->tag = 0x05;
	TR_S(derNULLDec(der, c) == c, "derNULLDec");
	tr_der_go(x, der, c, p[0]);
}

/* der-oid seed k narcs */
static void tr_der_oid(const size_t* p)
{
	char* oid = tr_oid(p[1], p[2]);
	size_t c;
	octet* der;
	tr_der_ctx x[1];
	TR_S(oidIsValid(oid), "oidIsValid");
	c = derOIDEnc(0, oid);
	TR_S(c != SIZE_MAX, "derOIDEnc-len");
	der = (octet*)tr_m(c);
	TR_S(derOIDEnc(der, oid) == c, "derOIDEnc");
	memset(x, 0, sizeof(x));
	x->tag = 0x06, x->oid = oid, x->len = c - 2;
	TR_S(derOIDDec2(der, c, oid) == c, "derOIDDec2");
	tr_der_go(x, der, c, p[0]);
}

/* der-pstr seed tag len */
static void tr_der_pstr(const size_t* p)
{
	static const char abc[] = "ABCDEFGHIJKLMNOPQRSTUVWXYZabcdefghijklmnopqrstuvwxyz0123456789 '()+,-./:=?";
	u32 tag = (u32)p[1];
	size_t len = p[2], c, i;
	char* s;
	octet* der;
	tr_der_ctx x[1];
	TR_S(tr_tag_ok(tag) && len <= 70000, "bad-params");
	s = (char*)tr_m(len + 1);
	for (i = 0; i < len; ++i) s[i] = abc[tr_below(sizeof(abc) - 1)];
	s[len] = 0;
	c = derTPSTREnc(0, tag, s);
	TR_S(c != SIZE_MAX, "derTPSTREnc-len");
	der = (octet*)tr_m(c);
	TR_S(derTPSTREnc(der, tag, s) == c, "derTPSTREnc");
	memset(x, 0, sizeof(x));
	x->tag = tag, x->len = len, x->val = (const octet*)s, x->vlen = len;
	TR_S(derTPSTRDec(0, 0, der, c, tag) == c, "derTPSTRDec");
	tr_der_go(x, der, c, p[0]);
}

/* der-seq seed tag n len : SEQ(tag) { SIZE, n x OCT[len], OID, NULL } */
static void tr_der_seq(const size_t* p)
{
	u32 tag = (u32)p[1];
	size_t n = p[2], len = p[3], c = 0, t, i, pass;
	octet *der = 0, *val;
	der_anchor_t an[1];
	tr_der_ctx x[1];
	TR_S(tr_tag_ok(tag) && n <= 16 && len <= 4096, "bad-params");
	val = tr_r(len);
	for (pass = 0; pass < 2; ++pass)
	{
		c = 0;
		t = derTSEQEncStart(an, der ? der + c : 0, c, tag);
		TR_S(t != SIZE_MAX, "derTSEQEncStart");
		c += t;
		t = derSIZEEnc(der ? der + c : 0, len), c += t;
		for (i = 0; i < n; ++i)
			t = derOCTEnc(der ? der + c : 0, val, len), c += t;
		t = derOIDEnc(der ? der + c : 0, "1.2.112.0.2.0.34.101.45.12"), c += t;
		t = derNULLEnc(der ? der + c : 0), c += t;
		t = derTSEQEncStop(der ? der + c : 0, c, an);
		TR_S(t != SIZE_MAX, "derTSEQEncStop");
		c += t;
		if (!der) der = (octet*)tr_m(c);
	}
	memset(x, 0, sizeof(x));
	x->tag = tag, x->len = len, x->sz = len, x->val = val, x->vlen = len;
	TR_S(derIsValid2(der, c, tag), "derIsValid2");
	tr_der_go(x, der, c, p[0]);
}

/* oid-der seed k narcs */
static void tr_oid_der_f(const octet* b, size_t c, void* vctx)
{
	tr_der_ctx* x = (tr_der_ctx*)vctx;
	size_t r, r1, l = 0;
	r = oidFromDER(0, b, c);
	++tr_calls_;
	if (r != SIZE_MAX) TR_T(r <= 4 * c + 8, "oidFromDER-len");
	r1 = oidFromDER((char*)x->out, b, c);
	++tr_calls_;
	TR_T(r == r1, "oidFromDER-det");
	if (r1 != SIZE_MAX)
	{
		TR_T(strlen((char*)x->out) == r1 && oidIsValid((char*)x->out), "oidFromDER-oid");
		TR_T(oidToDER(0, (char*)x->out) == c, "oidToDER-len");
	}
	r = derOIDDec((char*)x->out, &l, b, c); TR_LE(r, c, "derOIDDec");
	r = derOIDDec2(b, c, x->oid); TR_LE(r, c, "derOIDDec2");
}
static void tr_oid_der(const size_t* p)
{
	char* oid = tr_oid(p[1], p[2]);
	size_t c;
	octet* der;
	tr_der_ctx x[1];
	tr_sw sw[1];
	TR_S(oidIsValid(oid), "oidIsValid");
	c = oidToDER(0, oid);
	TR_S(c != SIZE_MAX, "oidToDER-len");
	der = (octet*)tr_m(c);
	TR_S(oidToDER(der, oid) == c, "oidToDER");
	memset(x, 0, sizeof(x));
	x->oid = oid, x->out = (octet*)tr_m(5 * c + 64);
	TR_S(oidFromDER(0, der, c) == strlen(oid), "oidFromDER");
	memset(sw, 0, sizeof(sw));
	sw->f = tr_oid_der_f, sw->ctx = x, sw->pbudget = 600, sw->mbudget = 330, sw->phase = p[0];
	tr_sweep(sw, der, c);
}

/* ---------------------------------------------------------------- strings */

typedef struct { octet* out; size_t out_n; char* tmp; } tr_str_ctx;

static void tr_hex_f(const octet* b, size_t c, void* vctx)
{
	tr_str_ctx* x = (tr_str_ctx*)vctx;
	const char* s = (const char*)b;
	size_t n = strlen(s);
	++tr_calls_;
	if (!hexIsValid(s))
		return;
	TR_T(n % 2 == 0 && n <= c, "hexIsValid-len");
	{
		/* documented exact size strLen / 2 */
		unsigned char* base = (unsigned char*)malloc(n / 2 ? n / 2 : 1);
		octet* d = n / 2 ? base : base + 1;
		hexTo(d, s);
		TR_T(hexEq(d, s), "hexEq");
		hexToRev(d, s);
		TR_T(hexEqRev(d, s), "hexEqRev");
		free(base);
		tr_calls_ += 4;
	}
	memcpy(x->tmp, s, n + 1);
	hexUpper(x->tmp), hexLower(x->tmp);
	TR_T(strlen(x->tmp) == n, "hexLower-len");
}

static void tr_b64_f(const octet* b, size_t c, void* vctx)
{
	tr_str_ctx* x = (tr_str_ctx*)vctx;
	const char* s = (const char*)b;
	size_t n = strlen(s), cnt = 0, cnt1;
	++tr_calls_;
	if (!b64IsValid(s))
		return;
	TR_T(n % 4 == 0 && n <= c, "b64IsValid-len");
	b64To(0, &cnt, s);
	TR_T(cnt <= 3 * n / 4, "b64To-len");
	cnt1 = x->out_n;
	b64To(x->out, &cnt1, s);
	TR_T(cnt1 == cnt, "b64To-count");
	tr_calls_ += 2;
}

static void tr_dec_f(const octet* b, size_t c, void* vctx)
{
	const char* s = (const char*)b;
	size_t n = strlen(s);
	(void)vctx;
	++tr_calls_;
	if (!decIsValid(s))
		return;
	TR_T(n <= c, "decIsValid-len");
	TR_T(decCLZ(s) <= n, "decCLZ");
	tr_sink_ += (unsigned)decToU32(s);
#ifdef U64_SUPPORT
	tr_sink_ += (unsigned)decToU64(s);
#endif
	tr_sink_ += (unsigned)decLuhnCalc(s);
	tr_sink_ += (unsigned)decDammCalc(s);
	tr_sink_ += (unsigned)decLuhnVerify(s);
	tr_sink_ += (unsigned)decDammVerify(s);
	tr_calls_ += 7;
}

/* hex seed n : n octets -> 2n characters, mixed case */
static void tr_hex(const size_t* p)
{
	size_t n = p[1], i;
	octet* src;
	char* s;
	tr_str_ctx x[1];
	tr_sw sw[1];
	TR_S(n <= 4096, "bad-params");
	src = tr_r(n);
	s = (char*)tr_m(2 * n + 1);
	hexFrom(s, src, n);
	for (i = 0; i < 2 * n; ++i)
		if (s[i] >= 'A' && s[i] <= 'F' && (tr_next() & 1)) s[i] = (char)(s[i] - 'A' + 'a');
	TR_S(hexIsValid(s), "hexIsValid");
	memset(x, 0, sizeof(x));
	x->tmp = (char*)tr_m(2 * n + 1);
	memset(sw, 0, sizeof(sw));
	sw->f = tr_hex_f, sw->ctx = x, sw->str = 1, sw->pbudget = 600, sw->mbudget = 330, sw->phase = p[0];
	tr_sweep(sw, (const octet*)s, 2 * n);
}

/* b64 seed n */
static void tr_b64(const size_t* p)
{
	size_t n = p[1], m;
	octet* src;
	char* s;
	tr_str_ctx x[1];
	tr_sw sw[1];
	TR_S(n <= 4096, "bad-params");
	src = tr_r(n);
	m = 4 * ((n + 2) / 3);
	s = (char*)tr_m(m + 1);
	b64From(s, src, n);
	TR_S(b64IsValid(s) && strlen(s) == m, "b64IsValid");
	memset(x, 0, sizeof(x));
	x->out_n = 3 * m / 4 + 8, x->out = (octet*)tr_m(x->out_n);
	memset(sw, 0, sizeof(sw));
	sw->f = tr_b64_f, sw->ctx = x, sw->str = 1, sw->pbudget = 600, sw->mbudget = 330, sw->phase = p[0];
	tr_sweep(sw, (const octet*)s, m);
}

/* dec seed n */
static void tr_dec(const size_t* p)
{
	size_t n = p[1], i;
	char* s;
	tr_sw sw[1];
	TR_S(n <= 4096, "bad-params");
	s = (char*)tr_m(n + 1);
	for (i = 0; i < n; ++i) s[i] = (char)('0' + tr_below(10));
	if (n > 3 && (p[0] & 1)) s[0] = s[1] = '0';
	s[n] = 0;
	TR_S(decIsValid(s), "decIsValid");
	memset(sw, 0, sizeof(sw));
	sw->f = tr_dec_f, sw->ctx = 0, sw->str = 1, sw->pbudget = 600, sw->mbudget = 330, sw->phase = p[0];
	tr_sweep(sw, (const octet*)s, n);
}

/* ---------------------------------------------------------------- containers */

static const char* tr_bign_name(size_t l)
{
	return l == 128 ? "1.2.112.0.2.0.34.101.45.3.1" :
		l == 192 ? "1.2.112.0.2.0.34.101.45.3.2" :
		l == 256 ? "1.2.112.0.2.0.34.101.45.3.3" : 0;
}

/* bign-params-der seed l */
static void tr_bign_params_f(const octet* b, size_t c, void* vctx)
{
	bign_params* params = (bign_params*)vctx;
	err_t e = bignParamsDec(params, b, c);
	++tr_calls_;
	if (e == ERR_OK)
		TR_T(derIsValid2(b, c, 0x30) && (params->l == 128 || params->l == 192 || params->l == 256),
			"bignParamsDec-accept");
}
static void tr_bign_params_der(const size_t* p)
{
	size_t l = p[1], k = 0;
	bign_params* params;
	octet* der;
	tr_sw sw[1];
	TR_S(tr_bign_name(l) != 0, "bad-l");
	params = (bign_params*)tr_m(sizeof(bign_params));
	TR_E(bignParamsStd(params, tr_bign_name(l)), "bignParamsStd");
	TR_E(bignParamsEnc(0, &k, params), "bignParamsEnc-len");
	der = (octet*)tr_m(k);
	TR_E(bignParamsEnc(der, &k, params), "bignParamsEnc");
	params = (bign_params*)tr_m(sizeof(bign_params));
	TR_E(bignParamsDec(params, der, k), "bignParamsDec");
	memset(sw, 0, sizeof(sw));
	sw->f = tr_bign_params_f, sw->ctx = params, sw->pbudget = 600, sw->mbudget = 420, sw->phase = p[0];
	tr_sweep(sw, der, k);
}

/* btok-cvc seed pk nlen : pk in {64, 96, 128}, 8 <= nlen <= 12 */
typedef struct {
	btok_cvc_t* cvc;		/* output */
	btok_cvc_t* cvca;		/* content of the issuer's certificate */
	const octet* certa; size_t certa_len;
	const octet* cert2; size_t cert2_len;	/* a certificate issued by certa */
	const octet* d; size_t d_len;
	size_t heavy;			/* counter: signature-level functions on every 16th accepted code */
	int which;				/* 0: codes derived from certa, 1: from cert2 */
} tr_cvc_ctx;

static void tr_cvc_f(const octet* b, size_t c, void* vctx)
{
	tr_cvc_ctx* x = (tr_cvc_ctx*)vctx;
	size_t r;
	err_t e;
	r = btokCVCLen(b, c); TR_LE(r, c, "btokCVCLen");
	e = btokCVCUnwrap(x->cvc, b, c, 0, 0);
	++tr_calls_;
	if (e != ERR_OK)
		return;
	TR_T(r == c, "btokCVCUnwrap-len");
	TR_T(btokCVCCheck(x->cvc) == ERR_OK, "btokCVCUnwrap-check");
	if (x->heavy++ % 16)
		return;
	/* well-formed code: signature-level functions */
	(void)btokCVCUnwrap(x->cvc, b, c, x->cvc->pubkey, 0);
	(void)btokCVCMatch(b, c, x->d, x->d_len);
	if (x->which == 0)
		(void)btokCVCVal(x->cert2, x->cert2_len, b, c, 0);
	else
	{
		(void)btokCVCVal(b, c, x->certa, x->certa_len, 0);
		(void)btokCVCVal2(x->cvc, b, c, x->cvca, 0);
		(void)btokCVCVal2(0, b, c, x->cvca, 0);
	}
	tr_calls_ += 4;
}

static void tr_name(char dst[13], size_t len)
{
	size_t i;
	memset(dst, 0, 13);
	for (i = 0; i < len; ++i)
		dst[i] = "ABCDEFGHIJKLMNOPQRSTUVWXYZ0123456789"[tr_below(36)];
}
static void tr_date(octet d[6], unsigned yy, unsigned mm, unsigned dd)
{
	d[0] = (octet)(yy / 10), d[1] = (octet)(yy % 10);
	d[2] = (octet)(mm / 10), d[3] = (octet)(mm % 10);
	d[4] = (octet)(dd / 10), d[5] = (octet)(dd % 10);
}

static void tr_btok_cvc(const size_t* p)
{
	size_t pk = p[1], nl = p[2], k = 0, k2 = 0;
	bign_params* params;
	btok_cvc_t *cvc, *cvc2;
	octet *d, *q, *d2, *q2, *cert, *cert2;
	void* rs;
	tr_cvc_ctx x[1];
	tr_sw sw[1];
	TR_S(tr_bign_name(pk * 2) != 0 && nl >= 8 && nl <= 12, "bad-params");
	params = (bign_params*)tr_m(sizeof(bign_params));
	TR_E(bignParamsStd(params, tr_bign_name(pk * 2)), "bignParamsStd");
	rs = tr_combo();
	d = (octet*)tr_m(pk / 2), q = (octet*)tr_m(pk);
	TR_E(bignKeypairGen(d, q, params, prngCOMBOStepR, rs), "bignKeypairGen");
	/* self-signed root */
	cvc = (btok_cvc_t*)tr_m(sizeof(btok_cvc_t));
	memset(cvc, 0, sizeof(btok_cvc_t));
	tr_name(cvc->authority, nl);
	memcpy(cvc->holder, cvc->authority, 13);
	tr_date(cvc->from, 22, 7, 1), tr_date(cvc->until, 39, 12, 31);
	if (p[0] & 1) memset(cvc->hat_eid, 0xEE, 5);
	if (p[0] & 2) memset(cvc->hat_esign, 0x77, 2);
	TR_E(btokCVCWrap(0, &k, cvc, d, pk / 2), "btokCVCWrap-len");
	cert = (octet*)tr_m(k);
	TR_E(btokCVCWrap(cert, &k, cvc, d, pk / 2), "btokCVCWrap");
	/* a certificate issued by the root */
	d2 = (octet*)tr_m(pk / 2), q2 = (octet*)tr_m(pk);
	TR_E(bignKeypairGen(d2, q2, params, prngCOMBOStepR, rs), "bignKeypairGen-2");
	cvc2 = (btok_cvc_t*)tr_m(sizeof(btok_cvc_t));
	memset(cvc2, 0, sizeof(btok_cvc_t));
	memcpy(cvc2->authority, cvc->holder, 13);
	tr_name(cvc2->holder, 8 + tr_below(5));
	tr_date(cvc2->from, 23, 1, 1), tr_date(cvc2->until, 29, 12, 31);
	memcpy(cvc2->pubkey, q2, pk), cvc2->pubkey_len = pk;
	TR_E(btokCVCIss(0, &k2, cvc2, cert, k, d, pk / 2), "btokCVCIss-len");
	cert2 = (octet*)tr_m(k2);
	TR_E(btokCVCIss(cert2, &k2, cvc2, cert, k, d, pk / 2), "btokCVCIss");
	TR_E(btokCVCVal(cert2, k2, cert, k, 0), "btokCVCVal");
	memset(x, 0, sizeof(x));
	x->cvc = (btok_cvc_t*)tr_m(sizeof(btok_cvc_t));
	x->cvca = cvc, x->certa = cert, x->certa_len = k, x->cert2 = cert2, x->cert2_len = k2;
	memset(sw, 0, sizeof(sw));
	/* every well-formed code costs a public key validation: fewer positions on the larger curves */
	sw->f = tr_cvc_f, sw->ctx = x, sw->pbudget = 600, sw->mbudget = pk == 64 ? 64 : pk == 96 ? 32 : 20;
	sw->phase = p[0];
	/* codes derived from the root (private key d), then from the issued certificate (d2) */
	x->which = 0, x->d = d, x->d_len = pk / 2;
	tr_sweep(sw, cert, k);
	x->which = 1, x->d = d2, x->d_len = pk / 2;
	tr_sweep(sw, cert2, k2);
}

/* btok-sm seed kind prot cdf_len rdf_len : kind 0 -> command, 1 -> response; prot 0 -> state == 0 */
static void tr_sm_f(const octet* b, size_t c, void* vctx)
{
	tr_apdu_ctx* x = (tr_apdu_ctx*)vctx;
	size_t size, k;
	err_t e;
	void* sts[2];
	sts[0] = 0, sts[1] = x->st;
	for (k = 0; k < 2; ++k)
	{
		if (k == 1 && !x->st)
			break;
		if (!x->resp)
		{
			apdu_cmd_t* cmd = (apdu_cmd_t*)x->out;
			(void)btokSMCmdUnwrap(0, 0, b, c, sts[k]);
			size = 0;
			e = btokSMCmdUnwrap(0, &size, b, c, sts[k]);
			if (e == ERR_OK)
				TR_T(size >= sizeof(apdu_cmd_t) && size - sizeof(apdu_cmd_t) <= c, "btokSMCmdUnwrap-size");
			size = 0;
			e = btokSMCmdUnwrap(cmd, &size, b, c, sts[k]);
			if (e == ERR_OK)
				TR_T(size == sizeof(apdu_cmd_t) + cmd->cdf_len && cmd->cdf_len <= c && apduCmdIsValid(cmd),
					"btokSMCmdUnwrap-cmd");
			(void)btokSMCmdUnwrap(cmd, 0, b, c, sts[k]);
		}
		else
		{
			apdu_resp_t* resp = (apdu_resp_t*)x->out;
			(void)btokSMRespUnwrap(0, 0, b, c, sts[k]);
			size = 0;
			e = btokSMRespUnwrap(0, &size, b, c, sts[k]);
			if (e == ERR_OK)
				TR_T(size >= sizeof(apdu_resp_t) && size - sizeof(apdu_resp_t) <= c, "btokSMRespUnwrap-size");
			size = 0;
			e = btokSMRespUnwrap(resp, &size, b, c, sts[k]);
			if (e == ERR_OK)
				TR_T(size == sizeof(apdu_resp_t) + resp->rdf_len && resp->rdf_len <= c, "btokSMRespUnwrap-resp");
			(void)btokSMRespUnwrap(resp, 0, b, c, sts[k]);
		}
		tr_calls_ += 4;
	}
}

static void tr_btok_sm(const size_t* p)
{
	size_t kind = p[1], prot = p[2], cl = p[3], rl = p[4], count = 0;
	octet *key, *apdu;
	void *st_t = 0, *st_ct = 0;
	tr_apdu_ctx x[1];
	tr_sw sw[1];
	TR_S(kind <= 1 && prot <= 1 && cl <= 65535 && rl <= 65536, "bad-params");
	key = tr_r(32);
	/* the receiving state is always real (state == 0 is tried on every code as well) */
	st_t = tr_m(btokSM_keep()), st_ct = tr_m(btokSM_keep());
	btokSMStart(st_t, key), btokSMStart(st_ct, key);
	memset(x, 0, sizeof(x));
	x->resp = (int)kind;
	if (kind == 0)
	{
		apdu_cmd_t* cmd = tr_mk_cmd(cl, rl, 0);
		void* st = prot ? st_t : 0;
		/* odd counter for commands */
		btokSMCtrInc(st_t), btokSMCtrInc(st_ct);
		TR_E(btokSMCmdWrap(0, &count, cmd, st), "btokSMCmdWrap-len");
		apdu = (octet*)tr_m(count);
		TR_E(btokSMCmdWrap(apdu, &count, cmd, st), "btokSMCmdWrap");
		x->out = tr_m(sizeof(apdu_cmd_t) + 65536 + 16);
		x->st = st_ct;
		TR_E(btokSMCmdUnwrap((apdu_cmd_t*)x->out, 0, apdu, count, prot ? st_ct : 0), "btokSMCmdUnwrap");
	}
	else
	{
		apdu_resp_t* resp = tr_mk_resp(rl);
		void* st = prot ? st_ct : 0;
		/* even counter for responses */
		btokSMCtrInc(st_t), btokSMCtrInc(st_ct);
		btokSMCtrInc(st_t), btokSMCtrInc(st_ct);
		TR_E(btokSMRespWrap(0, &count, resp, st), "btokSMRespWrap-len");
		apdu = (octet*)tr_m(count);
		TR_E(btokSMRespWrap(apdu, &count, resp, st), "btokSMRespWrap");
		x->out = tr_m(sizeof(apdu_resp_t) + count + 16);
		x->st = st_t;
		TR_E(btokSMRespUnwrap((apdu_resp_t*)x->out, 0, apdu, count, prot ? st_t : 0), "btokSMRespUnwrap");
	}
	memset(sw, 0, sizeof(sw));
	sw->f = tr_sm_f, sw->ctx = x, sw->phase = p[0];
	sw->pbudget = count > 4096 ? 48 : 400, sw->mbudget = count > 4096 ? 12 : 330;
	tr_sweep(sw, apdu, count);
}

/* bpki seed kind len plen : kind 0 -> privkey (len in {24,32,48,64}), 1 -> share (len in {17,25,33}),
   2 -> CSR of test/crypto/bpki_test.c.  PBKDF2 (10000 iterations) runs for every code whose outer
   structure parses: positions are sampled sparsely. */
typedef struct { int kind; const octet* pwd; size_t pwd_len; octet* out; unsigned flip; } tr_bpki_ctx;

/* positions of an EPKI container whose modification keeps the DER structure intact, so that
   PBKDF2 runs: the salt, the iteration count and the encrypted data (the last OCTET STRING) */
static octet* tr_bpki_heavy(const octet* epki, size_t k, const octet salt[8], size_t elen)
{
	octet* map = (octet*)tr_m(k);
	size_t so, eo, l;
	memset(map, 0, k);
	for (so = 0; so + 8 <= k; ++so)
		if (memcmp(epki + so, salt, 8) == 0) break;
	if (so + 8 > k) { memset(map, 1, k); return map; }
	/* salt, INTEGER iter: 02 02 hi lo (the value octets) */
	for (l = so; l < so + 8 && l < k; ++l) map[l] = 1;
	for (l = so + 10; l < so + 12 && l < k; ++l) map[l] = 1;
	/* OCT edata at the very end */
	for (eo = k > elen + 8 ? k - elen - 8 : 0; eo < k; ++eo)
		if (derOCTDec(0, &l, epki + eo, k - eo) == k - eo && l >= elen) break;
	if (eo >= k) { memset(map, 1, k); return map; }
	for (eo = k - l; eo < k; ++eo) map[eo] = 1;
	return map;
}

static void tr_bpki_f(const octet* b, size_t c, void* vctx)
{
	tr_bpki_ctx* x = (tr_bpki_ctx*)vctx;
	size_t l = 0;
	err_t e;
	if (x->kind == 0)
	{
		e = (x->flip++ & 1) ? bpkiPrivkeyUnwrap(0, &l, b, c, x->pwd, x->pwd_len) :
			bpkiPrivkeyUnwrap(x->out, &l, b, c, x->pwd, x->pwd_len);
		if (e == ERR_OK)
			TR_T(l <= c, "bpkiPrivkeyUnwrap-len");
	}
	else if (x->kind == 1)
	{
		e = (x->flip++ & 1) ? bpkiShareUnwrap(0, &l, b, c, x->pwd, x->pwd_len) :
			bpkiShareUnwrap(x->out, &l, b, c, x->pwd, x->pwd_len);
		if (e == ERR_OK)
			TR_T(l <= c, "bpkiShareUnwrap-len");
	}
	else
	{
		e = bpkiCSRUnwrap(0, 0, b, c);
		if (e == ERR_OK)
		{
			(void)bpkiCSRUnwrap(0, &l, b, c);
			TR_T(l <= c, "bpkiCSRUnwrap-len");
			(void)bpkiCSRUnwrap(x->out, &l, b, c);
		}
	}
	++tr_calls_;
}

static const char tr_csr_hex_[] =
	"3082017A30820134020100305F311530" "1306035504030C0C524F424552542053"
	"4D495448310E300C06035504040C0553" "4D495448310F300D060355042A0C0652"
	"4F42455254311830160603550405130F" "50415347422D35333333323434323831"
	"0B3009060355040613024742305D3018" "060A2A7000020022652D0201060A2A70"
	"00020022652D0301034100F64CDDFFE4" "D546EF484471583FAEBA9A38061084E2"
	"80BF996F90BA6AF0DB6620F59ABAA7AD" "29D4E7D1CA0C21DD9E32D485F9E74084"
	"1F4317CA9481503D1F1B50A06F301F06" "092A864886F70D01090731120C102F49"
	"4E464F3A65726970323334313233304C" "06092A864886F70D01090E313F303D30"
	"170603551D200410300E300C060A2A70" "00020022654E023D30220603551D1104"
	"1B30198117726F626572742E736D6974" "68406578616D706C652E756B300D0609"
	"2A7000020022652D0C050003310082B4" "F9F934E3FD457F5DF06AE63A88E722E3"
	"5D35F565551535BA94CEF9243011999D" "F2159E4F4BAC22AD8C3135A3BD26";

static void tr_bpki(const size_t* p)
{
	size_t kind = p[1], len = p[2], pl = p[3], k = 0;
	octet *epki = 0, *pwd;
	tr_bpki_ctx x[1];
	tr_sw sw[1];
	TR_S(kind <= 2 && pl <= 256, "bad-params");
	pwd = tr_r(pl);
	memset(x, 0, sizeof(x));
	x->kind = (int)kind, x->pwd = pwd, x->pwd_len = pl;
	memset(sw, 0, sizeof(sw));
	sw->f = tr_bpki_f, sw->ctx = x, sw->phase = p[0];
	if (kind == 0)
	{
		octet *key, *salt = tr_r(8);
		TR_S(len == 24 || len == 32 || len == 48 || len == 64, "bad-len");
		key = tr_r(len);
		TR_E(bpkiPrivkeyWrap(0, &k, 0, len, 0, pl, 0, 10000), "bpkiPrivkeyWrap-len");
		epki = (octet*)tr_m(k);
		TR_E(bpkiPrivkeyWrap(epki, &k, key, len, pwd, pl, salt, 10000), "bpkiPrivkeyWrap");
		sw->pbudget = 600, sw->mbudget = 600, sw->heavy = tr_bpki_heavy(epki, k, salt, len + 16), sw->hbudget = 2;
	}
	else if (kind == 1)
	{
		octet *share, *salt = tr_r(8);
		TR_S(len == 17 || len == 25 || len == 33, "bad-len");
		share = tr_r(len);
		share[0] = (octet)(1 + tr_below(16));
		TR_E(bpkiShareWrap(0, &k, 0, len, 0, pl, 0, 10000), "bpkiShareWrap-len");
		epki = (octet*)tr_m(k);
		TR_E(bpkiShareWrap(epki, &k, share, len, pwd, pl, salt, 10000), "bpkiShareWrap");
		sw->pbudget = 600, sw->mbudget = 600, sw->heavy = tr_bpki_heavy(epki, k, salt, len + 16), sw->hbudget = 2;
	}
	else
	{
		size_t i;
		k = (sizeof(tr_csr_hex_) - 1) / 2;
		epki = (octet*)tr_m(k);
		for (i = 0; i < k; ++i)
		{
			unsigned v;
			sscanf(tr_csr_hex_ + 2 * i, "%2x", &v);
			epki[i] = (octet)v;
		}
		TR_E(bpkiCSRUnwrap(0, 0, epki, k), "bpkiCSRUnwrap");
		sw->pbudget = 600, sw->mbudget = 64;
	}
	x->out = (octet*)tr_m(k + 64);
	tr_sweep(sw, epki, k);
}

/* bign-kwrap seed l len : token of len + 16 + l / 4 octets; every call starts the curve
   (bignStart) before the length check: sampled sparsely */
typedef struct { bign_params* params; const octet* hdr; const octet* d; octet* out; } tr_kw_ctx;
static void tr_kwrap_f(const octet* b, size_t c, void* vctx)
{
	tr_kw_ctx* x = (tr_kw_ctx*)vctx;
	(void)bignKeyUnwrap(x->out, x->params, b, c, x->hdr, x->d);
	++tr_calls_;
}
static void tr_bign_kwrap(const size_t* p)
{
	size_t l = p[1], len = p[2], n;
	bign_params* params;
	octet *d, *q, *key, *hdr, *token;
	void* rs;
	tr_kw_ctx x[1];
	tr_sw sw[1];
	TR_S(tr_bign_name(l) != 0 && len >= 16 && len <= 4096, "bad-params");
	params = (bign_params*)tr_m(sizeof(bign_params));
	TR_E(bignParamsStd(params, tr_bign_name(l)), "bignParamsStd");
	rs = tr_combo();
	d = (octet*)tr_m(l / 4), q = (octet*)tr_m(l / 2);
	TR_E(bignKeypairGen(d, q, params, prngCOMBOStepR, rs), "bignKeypairGen");
	key = tr_r(len), hdr = (p[0] & 1) ? tr_r(16) : 0;
	n = len + 16 + l / 4;
	token = (octet*)tr_m(n);
	TR_E(bignKeyWrap(token, params, key, len, hdr, q, prngCOMBOStepR, rs), "bignKeyWrap");
	memset(x, 0, sizeof(x));
	x->params = params, x->hdr = hdr, x->d = d, x->out = (octet*)tr_m(n + 16);
	TR_E(bignKeyUnwrap(x->out, params, token, n, hdr, d), "bignKeyUnwrap");
	memset(sw, 0, sizeof(sw));
	sw->f = tr_kwrap_f, sw->ctx = x, sw->pbudget = 12, sw->mbudget = 4, sw->phase = p[0];
	tr_sweep(sw, token, n);
}

/* belt-kwp seed n klen */
typedef struct {
	const octet* key; size_t klen; const octet* hdr; const octet* iv;
	const octet* a; size_t alen; const octet* y; size_t ylen; const octet* mac;
	int part; int che; octet* out;
} tr_belt_ctx;

static void tr_kwp_f(const octet* b, size_t c, void* vctx)
{
	tr_belt_ctx* x = (tr_belt_ctx*)vctx;
	(void)beltKWPUnwrap(x->out, b, c, x->hdr, x->key, x->klen);
	(void)beltKWPUnwrap(x->out, b, c, 0, x->key, x->klen);
	tr_calls_ += 2;
}
static void tr_belt_kwp(const size_t* p)
{
	size_t n = p[1], klen = p[2];
	octet *x0, *y;
	tr_belt_ctx x[1];
	tr_sw sw[1];
	TR_S(n >= 16 && n <= 4096 && (klen == 16 || klen == 24 || klen == 32), "bad-params");
	memset(x, 0, sizeof(x));
	x->key = tr_r(klen), x->klen = klen, x->hdr = tr_r(16);
	x0 = tr_r(n), y = (octet*)tr_m(n + 16);
	TR_E(beltKWPWrap(y, x0, n, x->hdr, x->key, klen), "beltKWPWrap");
	x->out = (octet*)tr_m(n + 16);
	TR_E(beltKWPUnwrap(x->out, y, n + 16, x->hdr, x->key, klen), "beltKWPUnwrap");
	memset(sw, 0, sizeof(sw));
	sw->f = tr_kwp_f, sw->ctx = x, sw->pbudget = 128, sw->mbudget = 64, sw->phase = p[0];
	tr_sweep(sw, y, n + 16);
}

/* belt-dwp / belt-che seed n1 n2 klen : octets of the ciphertext, of the open data and of the
   MAC are modified in turn (counts fixed, no internal lengths) */
static void tr_dwp_f(const octet* b, size_t c, void* vctx)
{
	tr_belt_ctx* x = (tr_belt_ctx*)vctx;
	const octet *y = x->y, *a = x->a, *mac = x->mac;
	size_t ylen = x->ylen, alen = x->alen;
	if (x->part == 0) y = b, ylen = c;
	else if (x->part == 1) a = b, alen = c;
	else mac = b;
	if (x->che)
		(void)beltCHEUnwrap(x->out, y, ylen, a, alen, mac, x->key, x->klen, x->iv);
	else
		(void)beltDWPUnwrap(x->out, y, ylen, a, alen, mac, x->key, x->klen, x->iv);
	++tr_calls_;
}
static void tr_belt_dwp_che(const size_t* p, int che)
{
	size_t n1 = p[1], n2 = p[2], klen = p[3];
	octet *x0, *y, *mac;
	tr_belt_ctx x[1];
	tr_sw sw[1];
	TR_S(n1 <= 4096 && n2 <= 4096 && (klen == 16 || klen == 24 || klen == 32), "bad-params");
	memset(x, 0, sizeof(x));
	x->che = che;
	x->key = tr_r(klen), x->klen = klen, x->iv = tr_r(16), x->a = tr_r(n2), x->alen = n2;
	x0 = tr_r(n1), y = (octet*)tr_m(n1), mac = (octet*)tr_m(8);
	if (che)
		TR_E(beltCHEWrap(y, mac, x0, n1, x->a, n2, x->key, klen, x->iv), "beltCHEWrap");
	else
		TR_E(beltDWPWrap(y, mac, x0, n1, x->a, n2, x->key, klen, x->iv), "beltDWPWrap");
	x->y = y, x->ylen = n1, x->mac = mac;
	x->out = (octet*)tr_m(n1 + 16);
	memset(sw, 0, sizeof(sw));
	sw->f = tr_dwp_f, sw->ctx = x, sw->pbudget = 64, sw->mbudget = 48, sw->phase = p[0];
	x->part = 0;
	tr_sweep(sw, y, n1);
	x->part = 1;
	tr_sweep(sw, x->a, n2);
	/* the MAC has a fixed size of 8 octets: mutations only */
	x->part = 2, sw->minlen = 8;
	tr_sweep(sw, mac, 8);
}
static void tr_belt_dwp(const size_t* p) { tr_belt_dwp_che(p, 0); }
static void tr_belt_che(const size_t* p) { tr_belt_dwp_che(p, 1); }

/* ---------------------------------------------------------------- dispatcher */

typedef void (*tr_fam_fn)(const size_t* p);
static const struct { const char* name; tr_fam_fn fn; size_t np; } tr_tab_[] = {
	{ "apdu-cmd", tr_apdu_cmd, 3 },
	{ "apdu-resp", tr_apdu_resp, 2 },
	{ "der-tl", tr_der_tl, 3 },
	{ "der-oct", tr_der_oct, 3 },
	{ "der-size", tr_der_size, 3 },
	{ "der-uint", tr_der_uint, 4 },
	{ "der-bit", tr_der_bit, 3 },
	{ "der-null", tr_der_null, 1 },
	{ "der-oid", tr_der_oid, 3 },
	{ "der-pstr", tr_der_pstr, 3 },
	{ "der-seq", tr_der_seq, 4 },
	{ "oid-der", tr_oid_der, 3 },
	{ "hex", tr_hex, 2 },
	{ "b64", tr_b64, 2 },
	{ "dec", tr_dec, 2 },
	{ "bign-params-der", tr_bign_params_der, 2 },
	{ "btok-cvc", tr_btok_cvc, 3 },
	{ "btok-sm", tr_btok_sm, 5 },
	{ "bpki", tr_bpki, 4 },
	{ "bign-kwrap", tr_bign_kwrap, 3 },
	{ "belt-kwp", tr_belt_kwp, 3 },
	{ "belt-dwp", tr_belt_dwp, 4 },
	{ "belt-che", tr_belt_che, 4 },
};

static int c07_trunc(int argc, char** argv)
{
	size_t i, k, p[8];
	if (argc < 2 || strcmp(argv[0], "tr") != 0) return 0;
	for (k = 0; k < sizeof(tr_tab_) / sizeof(tr_tab_[0]); ++k)
		if (strcmp(argv[1], tr_tab_[k].name) == 0) break;
	if (k == sizeof(tr_tab_) / sizeof(tr_tab_[0])) return 0;
	memset(p, 0, sizeof(p));
	if ((size_t)argc - 2 != tr_tab_[k].np || tr_tab_[k].np > 8)
	{
		printf("err bad-params %lu", (unsigned long)tr_tab_[k].np);
		return 1;
	}
	for (i = 0; i < tr_tab_[k].np; ++i)
		p[i] = (size_t)strtoull(argv[2 + i], 0, 10);
	tr_pool_n_ = 0, tr_err_ = 0, tr_code_ = 0, tr_calls_ = 0;
	tr_seed(p[0]);
	tr_tab_[k].fn(p);
	tr_free_all();
	if (tr_err_) printf("err %s %lu", tr_err_, tr_code_);
	else printf("ok");
	if (getenv("TR_STAT")) fprintf(stderr, "%s %lu\n", argv[1], (unsigned long)tr_calls_);
	return 1;
}

#endif /* BEE2V_C07_TRUNC_H */

/* C07 harness, math level: public functions of zz / pp / pri / zm / gfp / gf2 / ec / ecp / ec2
   called with a stack of EXACTLY the size their *_deep function reports and operands in
   exact-size heap buffers.  Included by c07.c. */

#define CHK(fname) do { if (strcmp(sizefn, fname)) return 0; } while (0)

static void ring_ops(qr_o* r, size_t rounds)
{
	/* every op with a stack of exactly r->deep; operands exact */
	size_t n = r->n, i;
	buf_t st = stk(r->deep);
	word* a = wwlt(r->mod, n);
	word* b = wwlt(r->mod, n);
	word* c = ww(n);
	octet* oct = (octet*)malloc(r->no ? r->no : 1);
	for (i = 0; i < rounds; ++i)
	{
		qrTo(oct, a, r, st.p);
		qrFrom(c, oct, r, st.p);
		qrAdd(c, a, b, r);
		qrSub(c, a, b, r);
		qrNeg(c, a, r);
		qrMul(c, a, b, r, st.p);
		qrSqr(c, a, r, st.p);
		if (!wwIsZero(b, n))
		{
			/* inversion needs an invertible element: use unity-derived values for composite moduli */
			qrMul(c, c, r->unity, r, st.p);
		}
		wwCopy(a, c, n);
	}
	/* inv / div on the unity (always invertible) and on a power of it */
	qrInv(c, r->unity, r, st.p);
	qrDiv(c, a, r->unity, r, st.p);
	{
		buf_t s2 = stk(qrPower_deep(n, n, r->deep));
		qrPower(c, a, b, n, r, s2.p);
		bfree(s2);
		s2 = stk(qrPower_deep(n, 1, r->deep));
		qrPower(c, a, b, 1, r, s2.p);
		bfree(s2);
	}
	free(oct);
	wfree(a, n); wfree(b, n); wfree(c, n);
	bfree(st);
}

static int c07_math(const char* fn, const char* sizefn, buf_t st, size_t size, int np, char** p)
{
	size_t n = np > 0 ? PA(0) : 0, m = np > 1 ? PA(1) : 0;
	if (np < 1) return 0;
	seed(np > 2 ? u_arg(p[np - 1]) : 1);
	/* ---------------------------------------------------------------- zz */
	if (!strcmp(fn, "zzMul"))
	{
		word *a = ww(n), *b = ww(m), *c = wo(n + m);
		CHK("zzMul_deep");
		zzMul(c, a, n, b, m, st.p);
		wfree(a, n); wfree(b, m); wfree(c, n + m);
		return 1;
	}
	if (!strcmp(fn, "zzSqr"))
	{
		word *a = ww(n), *c = wo(2 * n);
		CHK("zzSqr_deep");
		zzSqr(c, a, n, st.p);
		wfree(a, n); wfree(c, 2 * n);
		return 1;
	}
	if (!strcmp(fn, "zzSqrt"))
	{
		word *a = (m & 1) ? wwnz(n) : ww(n), *c = wo((n + 1) / 2);
		CHK("zzSqrt_deep");
		if (m & 2) { /* perfect square of a random (n+1)/2-word value truncated to n words */
			size_t h = (n + 1) / 2; word* t = ww(h); word* sq = ww(2 * h); buf_t s2 = stk(zzSqr_deep(h));
			zzSqr(sq, t, h, s2.p); wwCopy(a, sq, n); bfree(s2); wfree(t, h); wfree(sq, 2 * h); }
		zzSqrt(c, a, n, st.p);
		wfree(a, n); wfree(c, (n + 1) / 2);
		return 1;
	}
	if (!strcmp(fn, "zzDiv") || !strcmp(fn, "zzMod"))
	{
		/* n >= m for zzDiv; divisor top word non-zero */
		word *a = ww(n), *b = wwnz(m), *q, *r = wo(m);
		if (np > 3 && PA(2) == 1 && m) b[m - 1] = 1;               /* small top word: long normalisation shift */
		if (np > 3 && PA(2) == 2 && m) b[m - 1] = (word)-1;        /* no shift */
		if (np > 3 && PA(2) == 3) { size_t i; for (i = 0; i < n; ++i) a[i] = (word)-1; } /* maximal quotient digits */
		if (!strcmp(fn, "zzDiv"))
		{
			CHK("zzDiv_deep");
			if (n < m || m == 0) return 0;
			q = wo(n - m + 1);
			zzDiv(q, r, a, n, b, m, st.p);
			wfree(q, n - m + 1);
		}
		else
		{
			CHK("zzMod_deep");
			if (m == 0) return 0;
			zzMod(r, a, n, b, m, st.p);
		}
		wfree(a, n); wfree(b, m); wfree(r, m);
		return 1;
	}
	if (!strcmp(fn, "zzGCD") || !strcmp(fn, "zzLCM") || !strcmp(fn, "zzExGCD") || !strcmp(fn, "zzIsCoprime"))
	{
		word *a = wwnz(n), *b = wwnz(m);
		size_t mn = n < m ? n : m;
		if (n == 0 || m == 0) return 0;
		if (np > 3 && (PA(2) & 1)) { a[0] &= ~(word)255; b[0] &= ~(word)15; if (wwIsZero(a, n)) a[n - 1] = 1; if (wwIsZero(b, m)) b[m - 1] = 1; }  /* common powers of two */
		if (np > 3 && (PA(2) & 2)) { wwSetZero(a, n - 1); }      /* sparse */
		if (!strcmp(fn, "zzGCD")) { word* d = wo(mn); CHK("zzGCD_deep"); zzGCD(d, a, n, b, m, st.p); wfree(d, mn); }
		else if (!strcmp(fn, "zzIsCoprime")) { CHK("zzIsCoprime_deep"); zzIsCoprime(a, n, b, m, st.p); }
		else if (!strcmp(fn, "zzLCM")) { word* d = wo(n + m); CHK("zzLCM_deep"); zzLCM(d, a, n, b, m, st.p); wfree(d, n + m); }
		else { word *d = wo(mn), *da = wo(m), *db = wo(n); CHK("zzExGCD_deep"); zzExGCD(d, da, db, a, n, b, m, st.p); wfree(d, mn); wfree(da, m); wfree(db, n); }
		wfree(a, n); wfree(b, m);
		return 1;
	}
	if (!strcmp(fn, "zzJacobi"))
	{
		word *a = ww(n), *b = wwodd(m);
		CHK("zzJacobi_deep");
		if (m == 0) return 0;
		zzJacobi(a, n, b, m, st.p);
		wfree(a, n); wfree(b, m);
		return 1;
	}
	if (!strcmp(fn, "zzMulMod") || !strcmp(fn, "zzSqrMod") || !strcmp(fn, "zzInvMod") || !strcmp(fn, "zzDivMod") ||
		!strcmp(fn, "zzAlmostInvMod") || !strcmp(fn, "zzMulWMod"))
	{
		word *mod = wwodd(n), *a, *b, *c = wo(n);
		if (n == 0) return 0;
		if (n == 1 && mod[0] < 3) mod[0] = 3;
		a = wwlt(mod, n); b = wwlt(mod, n);
		if (!strcmp(fn, "zzMulMod")) { CHK("zzMulMod_deep"); zzMulMod(c, a, b, mod, n, st.p); }
		else if (!strcmp(fn, "zzSqrMod")) { CHK("zzSqrMod_deep"); zzSqrMod(c, a, mod, n, st.p); }
		else if (!strcmp(fn, "zzMulWMod")) { CHK("zzMulWMod_deep"); zzMulWMod(c, a, (word)rnd(), mod, n, st.p); }
		else
		{
			/* invertible a: a power of two is coprime to an odd modulus */
			size_t bit = (size_t)(rnd() % (B_PER_W * n - 1));
			wwSetZero(a, n); wwSetBit(a, bit, 1);
			if (wwCmp(a, mod, n) >= 0) { wwSetZero(a, n); a[0] = 1; }
			if (m == 1) { /* random odd unit: a <- 2^bit * 3 mod-free only if below mod */ a[0] |= 1; if (wwCmp(a, mod, n) >= 0) { wwSetZero(a, n); a[0] = 1; }
				{ buf_t s2 = stk(zzGCD_deep(n, n)); word* d = ww(n); zzGCD(d, a, n, mod, n, s2.p); if (!wwIsW(d, n, 1)) { wwSetZero(a, n); a[0] = 2; } wfree(d, n); bfree(s2); } }
			if (!strcmp(fn, "zzInvMod")) { CHK("zzInvMod_deep"); zzInvMod(c, a, mod, n, st.p); }
			else if (!strcmp(fn, "zzDivMod")) { CHK("zzDivMod_deep"); zzDivMod(c, b, a, mod, n, st.p); }
			else { CHK("zzAlmostInvMod_deep"); zzAlmostInvMod(c, a, mod, n, st.p); }
		}
		wfree(mod, n); wfree(a, n); wfree(b, n); wfree(c, n);
		return 1;
	}
	if (!strcmp(fn, "zzRed") || !strcmp(fn, "zzRedBarr") || !strcmp(fn, "zzRedMont") || !strcmp(fn, "zzRedCrand") || !strcmp(fn, "zzRedCrandMont"))
	{
		word *mod, *a = ww(2 * n);
		size_t i;
		if (n == 0) return 0;
		if (!strcmp(fn, "zzRedCrand") || !strcmp(fn, "zzRedCrandMont"))
		{
			if (n < 2) return 0;
			mod = ww(n);
			for (i = 1; i < n; ++i) mod[i] = (word)-1;
			mod[0] |= 1;
		}
		else
			mod = wwodd(n);
		if (m == 1) for (i = 0; i < 2 * n; ++i) a[i] = (word)-1;
		if (!strcmp(fn, "zzRed")) { CHK("zzRed_deep"); zzRed(a, mod, n, st.p); }
		else if (!strcmp(fn, "zzRedCrand")) { CHK("zzRedCrand_deep"); zzRedCrand(a, mod, n, st.p); }
		else if (!strcmp(fn, "zzRedBarr"))
		{
			word* bp = ww(n + 2);
			buf_t s2 = stk(zzRedBarrStart_deep(n));
			CHK("zzRedBarr_deep");
			zzRedBarrStart(bp, mod, n, s2.p);
			bfree(s2);
			zzRedBarr(a, mod, n, bp, st.p);
			wfree(bp, n + 2);
		}
		else
		{
			/* a < mod * B^n */
			word mp = wordNegInv(mod[0]);
			wwCopy(a + n, mod, n);
			if (m != 1) { word* t = wwlt(mod, n); wwCopy(a + n, t, n); wfree(t, n); }
			else zzSubW2(a + n, n, 1), wwSetZero(a, n), zzSubW2(a, n, 1);
			if (!strcmp(fn, "zzRedMont")) { CHK("zzRedMont_deep"); zzRedMont(a, mod, n, mp, st.p); }
			else { CHK("zzRedCrandMont_deep"); zzRedCrandMont(a, mod, n, mp, st.p); }
		}
		wfree(mod, n); wfree(a, 2 * n);
		return 1;
	}
	if (!strcmp(fn, "zzRedBarrStart"))
	{
		word *mod = wwnz(n), *bp = wo(n + 2);
		CHK("zzRedBarrStart_deep");
		if (n == 0) return 0;
		zzRedBarrStart(bp, mod, n, st.p);
		wfree(mod, n); wfree(bp, n + 2);
		return 1;
	}
	if (!strcmp(fn, "zzPowerMod"))
	{
		word *mod = wwodd(n), *a, *b = ww(m), *c = wo(n);
		CHK("zzPowerMod_deep");
		if (n == 0) return 0;
		if (np > 3 && PA(2) == 1) mod[0] &= ~(word)1, mod[0] |= 2;   /* even modulus: other ring type */
		if (n == 1 && mod[0] < 3) mod[0] = 3;
		a = wwlt(mod, n);
		zzPowerMod(c, a, n, b, m, mod, st.p);
		wfree(mod, n); wfree(a, n); wfree(b, m); wfree(c, n);
		return 1;
	}
	/* ---------------------------------------------------------------- pp */
	if (!strcmp(fn, "ppMul"))
	{
		word *a = ww(n), *b = ww(m), *c = wo(n + m);
		CHK("ppMul_deep");
		ppMul(c, a, n, b, m, st.p);
		wfree(a, n); wfree(b, m); wfree(c, n + m);
		return 1;
	}
	if (!strcmp(fn, "ppSqr"))
	{
		word *a = ww(n), *c = wo(2 * n);
		CHK("ppSqr_deep");
		ppSqr(c, a, n, st.p);
		wfree(a, n); wfree(c, 2 * n);
		return 1;
	}
	if (!strcmp(fn, "ppDiv") || !strcmp(fn, "ppMod"))
	{
		word *a = ww(n), *b = wwnz(m), *r = wo(m);
		if (m == 0) return 0;
		if (np > 3 && PA(2) == 1) b[m - 1] = 1;
		if (!strcmp(fn, "ppDiv"))
		{
			word* q;
			CHK("ppDiv_deep");
			if (n < m) return 0;
			q = wo(n - m + 1);
			ppDiv(q, r, a, n, b, m, st.p);
			wfree(q, n - m + 1);
		}
		else { CHK("ppMod_deep"); ppMod(r, a, n, b, m, st.p); }
		wfree(a, n); wfree(b, m); wfree(r, m);
		return 1;
	}
	if (!strcmp(fn, "ppGCD") || !strcmp(fn, "ppExGCD"))
	{
		word *a = wwnz(n), *b = wwnz(m);
		size_t mn = n < m ? n : m;
		if (n == 0 || m == 0) return 0;
		if (!strcmp(fn, "ppGCD")) { word* d = wo(mn); CHK("ppGCD_deep"); ppGCD(d, a, n, b, m, st.p); wfree(d, mn); }
		else { word *d = wo(mn), *da = wo(m), *db = wo(n); CHK("ppExGCD_deep"); ppExGCD(d, da, db, a, n, b, m, st.p); wfree(d, mn); wfree(da, m); wfree(db, n); }
		wfree(a, n); wfree(b, m);
		return 1;
	}
	if (!strcmp(fn, "ppMulMod") || !strcmp(fn, "ppSqrMod") || !strcmp(fn, "ppInvMod") || !strcmp(fn, "ppDivMod"))
	{
		/* mod with non-zero top word and non-zero constant term; a, b of lower degree */
		word *mod = wwnz(n), *a = ww(n), *b = ww(n), *c = wo(n);
		size_t dm;
		if (n == 0) return 0;
		mod[0] |= 1;
		if (n == 1 && mod[0] < 4) mod[0] = 7;
		dm = wwBitSize(mod, n) - 1;
		wwTrimHi(a, n, dm); wwTrimHi(b, n, dm);
		if (!strcmp(fn, "ppMulMod")) { CHK("ppMulMod_deep"); ppMulMod(c, a, b, mod, n, st.p); }
		else if (!strcmp(fn, "ppSqrMod")) { CHK("ppSqrMod_deep"); ppSqrMod(c, a, mod, n, st.p); }
		else
		{
			/* invertible: a = 1 or x^k with constant-term mod (x^k coprime to mod since mod(0) = 1) */
			size_t k = dm ? (size_t)(rnd() % dm) : 0;
			wwSetZero(a, n); wwSetBit(a, k, 1);
			if (!strcmp(fn, "ppInvMod")) { CHK("ppInvMod_deep"); ppInvMod(c, a, mod, n, st.p); }
			else { CHK("ppDivMod_deep"); ppDivMod(c, b, a, mod, n, st.p); }
		}
		wfree(mod, n); wfree(a, n); wfree(b, n); wfree(c, n);
		return 1;
	}
	if (!strcmp(fn, "ppIsIrred"))
	{
		word* a = wwnz(n);
		CHK("ppIsIrred_deep");
		if (n == 0) return 0;
		a[0] |= 1;
		if (m == 1 && n >= 2) { /* a known irreducible: x^(64(n-1)+ ... ) is hard; use trinomial x^127+x+1 style when it fits */
			wwSetZero(a, n); wwSetBit(a, 0, 1); wwSetBit(a, 1, 1); wwSetBit(a, (n - 1) * B_PER_W + 7 < 127 ? 7 : 127, 1); if (n * B_PER_W <= 127) { wwSetZero(a, n); a[0] = 0x83; } }
		if (wwBitSize(a, n) < 2) a[0] = 7;
		ppIsIrred(a, n, st.p);
		wfree(a, n);
		return 1;
	}
	if (!strcmp(fn, "ppMinPolyMod"))
	{
		word *mod = wwnz(n), *a = ww(n), *c = wo(n);
		CHK("ppMinPolyMod_deep");
		if (n == 0) return 0;
		mod[0] |= 1;
		if (wwBitSize(mod, n) < 3) mod[0] = 7;
		wwTrimHi(a, n, wwBitSize(mod, n) - 1);
		ppMinPolyMod(c, a, mod, n, st.p);
		wfree(mod, n); wfree(a, n); wfree(c, n);
		return 1;
	}
	if (!strcmp(fn, "ppRed"))
	{
		word *mod = wwnz(n), *a = ww(2 * n);
		CHK("ppRed_deep");
		if (n == 0) return 0;
		ppRed(a, mod, n, st.p);
		wfree(mod, n); wfree(a, 2 * n);
		return 1;
	}
	/* ---------------------------------------------------------------- pri */
	if (!strcmp(fn, "priIsPrime") || !strcmp(fn, "priRMTest") || !strcmp(fn, "priIsSGPrime"))
	{
		word* a = wwodd(n);
		if (n == 0) return 0;
		if (n == 1 && a[0] < 50) a[0] = 53;
		if (m == 1) { /* a prime: 2^61-1 / 2^127-1 / 2^89-1 style Mersenne where it fits */
			wwSetZero(a, n); if (n * B_PER_W >= 128) { size_t i; for (i = 0; i < 127; ++i) wwSetBit(a, i, 1); } else if (B_PER_W * n >= 64) { size_t i; for (i = 0; i < 61; ++i) wwSetBit(a, i, 1); } else a[0] = 2147483647u; }
		if (m == 2) { /* safe prime 2q+1 small: 2879 = 2*1439+1 */ wwSetZero(a, n); a[0] = 2879; }
		if (!strcmp(fn, "priIsPrime")) { CHK("priIsPrime_deep"); priIsPrime(a, n, st.p); }
		else if (!strcmp(fn, "priIsSGPrime")) { CHK("priIsSGPrime_deep"); priIsSGPrime(a, n, st.p); }
		else { CHK("priRMTest_deep"); if (n == 1 && a[0] < 49) a[0] = 53; priRMTest(a, n, 3, st.p); }
		wfree(a, n);
		return 1;
	}
	if (!strcmp(fn, "priIsSieved") || !strcmp(fn, "priIsSmooth"))
	{
		word* a = wwodd(n);
		if (n == 0) return 0;
		if (!strcmp(fn, "priIsSieved")) { CHK("priIsSieved_deep"); priIsSieved(a, n, m, st.p); }
		else { CHK("priIsSmooth_deep"); priIsSmooth(a, n, m, st.p); }
		wfree(a, n);
		return 1;
	}
	if (!strcmp(fn, "priNextPrime"))
	{
		/* run <fn> priNextPrime_deep 2 n base_count | n base_count seed */
		word *a = ww(n), *c = wo(n);
		CHK("priNextPrime_deep");
		if (n == 0 || n > 2) return 0;
		wwTrimHi(a, n, n * B_PER_W - 1); a[n - 1] |= (word)1 << (B_PER_W - 3);
		priNextPrime(c, a, n, SIZE_MAX, m, 4, st.p);
		wfree(a, n); wfree(c, n);
		return 1;
	}
	/* ---------------------------------------------------------------- zm / gfp rings */
	if (!strcmp(fn, "zmRing"))
	{
		/* run zmRing <zmCreate*_deep> 1 no | no kind seed : create with exact keep and exact deep (st), then all ops with exact r->deep */
		size_t no = n;
		int kind = (int)m;
		buf_t kb;
		octet* mod = (octet*)malloc(no ? no : 1);
		qr_o* r;
		size_t i, keep;
		static const char* names[] = { "zmCreatePlain_deep", "zmCreateCrand_deep", "zmCreateBarr_deep", "zmCreateMont_deep", "zmCreate_deep", "gfpCreate_deep", "zmMontCreate_deep" };
		if (kind < 0 || kind > 6 || no == 0) return 0;
		CHK(names[kind]);
		for (i = 0; i < no; ++i) mod[i] = (octet)rnd();
		if (mod[no - 1] == 0) mod[no - 1] = 1;
		if (kind == 1) { if (no % O_PER_W || no < 2 * O_PER_W) { free(mod); return 0; } memset(mod + O_PER_W, 0xFF, no - O_PER_W); mod[0] |= 1; }
		mod[0] |= 1;      /* odd modulus: inversion/division of units is defined for every ring kind */
		if (kind == 5) { /* gfpCreate wants an odd modulus > 1; primality is not required for the size logic but ops assume a field: use a prime where cheap */
			if (no == 32) { static const char p256[] = "43ffffffffffffffffffffffffffffffffffffffffffffffffffffffffffffff"; int k; memset(mod, 0xFF, 32); mod[0] = 0x43; (void)p256; (void)k; } }
		if (no == 1 && mod[0] < 3) mod[0] = 3;
		keep = kind == 0 ? zmCreatePlain_keep(no) : kind == 1 ? zmCreateCrand_keep(no) : kind == 2 ? zmCreateBarr_keep(no) :
			kind == 3 ? zmCreateMont_keep(no) : kind == 4 ? zmCreate_keep(no) : kind == 6 ? zmMontCreate_keep(no) : gfpCreate_keep(no);
		kb = balloc(keep);
		r = (qr_o*)kb.p;
		switch (kind)
		{
		case 0: zmCreatePlain(r, mod, no, st.p); break;
		case 1: zmCreateCrand(r, mod, no, st.p); break;
		case 2: zmCreateBarr(r, mod, no, st.p); break;
		case 3: zmCreateMont(r, mod, no, st.p); break;
		case 4: zmCreate(r, mod, no, st.p); break;
		case 6: zmMontCreate(r, mod, no, B_OF_W(W_OF_O(no)), st.p); break;
		default: if (!gfpCreate(r, mod, no, st.p)) { bfree(kb); free(mod); return 1; } break;
		}
		if (r->hdr.keep > keep || r->deep > size) { fprintf(stderr, "Assertion c07: object keep/deep %zu/%zu exceed declared %zu/%zu\n", r->hdr.keep, r->deep, keep, size); abort(); }
		/* the specific constructors record exactly what their *_keep()/_deep() report (zmCreate/gfpCreate: the maximum over the kinds) */
		if ((kind <= 3 || kind == 6) && (r->hdr.keep != keep || r->deep != size)) { fprintf(stderr, "Assertion c07: objKeep/deep %zu/%zu of ring kind %d differ from *_keep/_deep %zu/%zu\n", r->hdr.keep, r->deep, kind, keep, size); abort(); }
		if (r->n != W_OF_O(no) || r->no != no) { fprintf(stderr, "Assertion c07: ring dimensions\n"); abort(); }
		ring_ops(r, 3);
		bfree(kb); free(mod);
		return 1;
	}
	if (!strcmp(fn, "gf2Ring"))
	{
		/* run gf2Ring gf2Create_deep 1 m | m k l l1 seed : GF(2^m) with trinomial/pentanomial */
		size_t pp[4];
		buf_t kb;
		qr_o* f;
		CHK("gf2Create_deep");
		if (np < 5) return 0;
		pp[0] = PA(0); pp[1] = PA(1); pp[2] = PA(2); pp[3] = PA(3);
		kb = balloc(gf2Create_keep(pp[0]));
		f = (qr_o*)kb.p;
		if (!gf2Create(f, pp, st.p)) { bfree(kb); return 1; }
		if (f->hdr.keep > kb.n || f->deep > size) { fprintf(stderr, "Assertion c07: gf2 keep/deep %zu/%zu exceed declared %zu/%zu\n", f->hdr.keep, f->deep, kb.n, size); abort(); }
		/* a pentanomial field fills gf2Create_keep(m) exactly (the trinomial description is shorter) */
		if (pp[2] != 0 && f->hdr.keep != kb.n) { fprintf(stderr, "Assertion c07: objKeep %zu of GF(2^%zu) differs from gf2Create_keep %zu\n", f->hdr.keep, pp[0], kb.n); abort(); }
		if (f->n != W_OF_B(pp[0]) || f->no != O_OF_B(pp[0])) { fprintf(stderr, "Assertion c07: gf2 dimensions\n"); abort(); }
		{
			size_t nn = f->n, i;
			buf_t s2 = stk(f->deep);
			word *a = ww(nn), *b = ww(nn), *c = wo(nn);
			octet* oct = (octet*)malloc(f->no);
			int fld;
			{ buf_t s0 = stk(gf2IsValid_deep(nn)); fld = gf2IsValid(f, s0.p); bfree(s0); }   /* irreducible modulus? inversion only then */
			wwTrimHi(a, nn, pp[0]); wwTrimHi(b, nn, pp[0]);
			if (wwIsZero(b, nn)) b[0] = 1;
			for (i = 0; i < 3; ++i)
			{
				qrTo(oct, a, f, s2.p); qrFrom(c, oct, f, s2.p);
				qrAdd(c, a, b, f); qrMul(c, a, b, f, s2.p); qrSqr(c, c, f, s2.p);
				if (fld) { qrInv(c, b, f, s2.p); qrDiv(c, a, b, f, s2.p); }
				wwCopy(a, c, nn);
			}
			bfree(s2);
			/* gf2Tr / gf2QSolve with exact declared depth */
			{
				buf_t s3 = stk(gf2Tr_deep(nn, f->deep));
				if (fld) gf2Tr(a, f, s3.p);       /* the trace is 0/1 only in a field (\\expect f is valid) */
				bfree(s3);
				s3 = stk(gf2QSolve_deep(nn, f->deep));
				if (fld && pp[0] % 2) gf2QSolve(c, a, b, f, s3.p);
				bfree(s3);
				s3 = stk(gf2IsValid_deep(nn));
				gf2IsValid(f, s3.p);
				bfree(s3);
			}
			free(oct); wfree(a, nn); wfree(b, nn); wfree(c, nn);
		}
		bfree(kb);
		return 1;
	}
	/* ---------------------------------------------------------------- ecp over the bign curves */
	if (!strcmp(fn, "ecpBign"))
	{
		/* run ecpBign gfpCreate_deep 1 no | no seed : field (exact keep/deep = st), curve (exact keep, exact deep),
		   then ecMulA / ecAddMulA / ecHasOrderA / ecpIsValid / ecpIsOnA / ecpAddAA / ecpSubAA / ecpSWU / ecpIsSafeGroup / ecpSeemsValidGroup
		   each with a stack of exactly its *_deep */
		static const char* oids[] = { "1.2.112.0.2.0.34.101.45.3.1", "1.2.112.0.2.0.34.101.45.3.2", "1.2.112.0.2.0.34.101.45.3.3" };
		bign_params* prm = (bign_params*)malloc(sizeof(bign_params));
		size_t no = n, nn = W_OF_O(no), lvl = no == 32 ? 0 : no == 48 ? 1 : 2;
		buf_t fb, eb, s2;
		qr_o* f;
		ec_o* ec;
		CHK("gfpCreate_deep");
		if (no != 32 && no != 48 && no != 64) { free(prm); return 0; }
		if (bignParamsStd(prm, oids[lvl]) != ERR_OK) { free(prm); return 0; }
		fb = balloc(gfpCreate_keep(no));
		f = (qr_o*)fb.p;
		if (!gfpCreate(f, prm->p, no, st.p)) { fprintf(stderr, "Assertion c07: gfpCreate failed\n"); abort(); }
		eb = balloc(ecpCreateJ_keep(nn));
		ec = (ec_o*)eb.p;
		s2 = stk(ecpCreateJ_deep(nn, f->deep));
		if (!ecpCreateJ(ec, f, prm->a, prm->b, s2.p)) { fprintf(stderr, "Assertion c07: ecpCreateJ failed\n"); abort(); }
		bfree(s2);
		s2 = stk(ecCreateGroup_deep(f->deep));
		if (!ecCreateGroup(ec, 0, prm->yG, prm->q, no, 1, s2.p)) { fprintf(stderr, "Assertion c07: ecCreateGroup failed\n"); abort(); }
		bfree(s2);
		if (ec->hdr.keep != eb.n || ec->deep > ecpCreateJ_deep(nn, f->deep)) { fprintf(stderr, "Assertion c07: objKeep %zu of the curve differs from ecpCreateJ_keep %zu (or deep exceeds)\n", ec->hdr.keep, eb.n); abort(); }
		{
			word *d = ww(nn), *d2 = ww(nn / 2 + 1), *b = wo(2 * nn), *c = wo(2 * nn);
			size_t mlen = 1 + (size_t)(rnd() % nn);
			s2 = stk(ecMulA_deep(nn, ec->d, ec->deep, nn));
			if (!ecMulA(b, ec->base, ec, d, nn, s2.p)) wwCopy(b, ec->base, 2 * nn);   /* d*P == O: b is not written */
			bfree(s2);
			s2 = stk(ecMulA_deep(nn, ec->d, ec->deep, mlen));
			ecMulA(c, ec->base, ec, d, mlen, s2.p);
			bfree(s2);
			s2 = stk(ecAddMulA_deep(nn, ec->d, ec->deep, 2, nn, nn / 2 + 1));
			ecAddMulA(c, ec, s2.p, 2, ec->base, d, nn, b, d2, nn / 2 + 1);
			bfree(s2);
			s2 = stk(ecAddMulA_deep(nn, ec->d, ec->deep, 1, mlen));
			ecAddMulA(c, ec, s2.p, 1, b, d, mlen);
			bfree(s2);
			s2 = stk(ecHasOrderA_deep(nn, ec->d, ec->deep, nn));
			ecHasOrderA(ec->base, ec, ec->order, nn, s2.p);
			bfree(s2);
			s2 = stk(ecpIsValid_deep(nn, f->deep));
			ecpIsValid(ec, s2.p);
			bfree(s2);
			s2 = stk(ecpSeemsValidGroup_deep(nn, f->deep));
			ecpSeemsValidGroup(ec, s2.p);
			bfree(s2);
			s2 = stk(ecpIsOnA_deep(nn, f->deep));
			ecpIsOnA(b, ec, s2.p);
			bfree(s2);
			s2 = stk(ecpAddAA_deep(nn, f->deep));
			ecpAddAA(c, b, ec->base, ec, s2.p);
			ecpAddAA(c, b, b, ec, s2.p);
			bfree(s2);
			s2 = stk(ecpSubAA_deep(nn, f->deep));
			ecpSubAA(c, b, ec->base, ec, s2.p);
			ecpSubAA(c, b, b, ec, s2.p);
			bfree(s2);
			s2 = stk(ecpSWU_deep(nn, f->deep));
			{ word* t = wwlt(f->mod, nn); ecpSWU(c, t, ec, s2.p); wfree(t, nn); }
			bfree(s2);
			if (m == 1)
			{
				s2 = stk(ecpIsSafeGroup_deep(nn));
				ecpIsSafeGroup(ec, 40, s2.p);
				bfree(s2);
			}
			wfree(d, nn); wfree(d2, nn / 2 + 1); wfree(b, 2 * nn); wfree(c, 2 * nn);
		}
		bfree(eb); bfree(fb); free(prm);
		return 1;
	}
	/* ---------------------------------------------------------------- ec2 over the dstu curves */
	if (!strcmp(fn, "ec2Dstu"))
	{
		/* run ec2Dstu gf2Create_deep 1 m | m curve# seed */
		static const char* names[] = { "1.2.804.2.1.1.1.1.3.1.1.1.2.0", "1.2.804.2.1.1.1.1.3.1.1.1.2.2", "1.2.804.2.1.1.1.1.3.1.1.1.2.5", "1.2.804.2.1.1.1.1.3.1.1.1.2.9" };
		dstu_params* prm = (dstu_params*)malloc(sizeof(dstu_params));
		buf_t fb, eb, s2;
		qr_o* f;
		ec_o* ec;
		size_t nn;
		CHK("gf2Create_deep");
		if (m > 3 || dstuParamsStd(prm, names[m]) != ERR_OK) { free(prm); return 0; }
		if (prm->p[0] != n) { free(prm); return 0; }
		if (m != 0)
		{
			/* dstuParamsStd ships a base point only for the first curve: generate one (dstuPointGen, 6.8 of DSTU) */
			octet* cst = (octet*)malloc(prngCOMBO_keep());
			prngCOMBOStart(cst, (u32)(rnd() | 1));
			if (dstuPointGen(prm->P, prm, prngCOMBOStepR, cst) != ERR_OK) { fprintf(stderr, "Assertion c07: dstuPointGen failed\n"); abort(); }
			free(cst);
		}
		fb = balloc(gf2Create_keep(prm->p[0]));
		f = (qr_o*)fb.p;
		{ size_t* p4 = (size_t*)malloc(4 * sizeof(size_t)); int ok; p4[0] = prm->p[0]; p4[1] = prm->p[1]; p4[2] = prm->p[2]; p4[3] = prm->p[3];
		  ok = gf2Create(f, p4, st.p); free(p4); if (!ok) { fprintf(stderr, "Assertion c07: gf2Create failed\n"); abort(); } }
		if (0) { fprintf(stderr, "Assertion c07: gf2Create failed\n"); abort(); }
		nn = f->n;
		eb = balloc(ec2CreateLD_keep(nn));
		ec = (ec_o*)eb.p;
		s2 = stk(ec2CreateLD_deep(nn, f->deep));
		{
			octet* A = (octet*)malloc(f->no);
			memset(A, 0, f->no); A[0] = prm->A;
			if (!ec2CreateLD(ec, f, A, prm->B, s2.p)) { fprintf(stderr, "Assertion c07: ec2CreateLD failed\n"); abort(); }
			free(A);
		}
		bfree(s2);
		s2 = stk(ecCreateGroup_deep(f->deep));
		if (!ecCreateGroup(ec, prm->P, prm->P + f->no, prm->n, f->no, prm->c, s2.p)) { fprintf(stderr, "Assertion c07: ecCreateGroup(ec2) failed\n"); abort(); }
		bfree(s2);
		if (ec->hdr.keep != eb.n || ec->deep > ec2CreateLD_deep(nn, f->deep)) { fprintf(stderr, "Assertion c07: objKeep %zu of the curve differs from ec2CreateLD_keep %zu (or deep exceeds)\n", ec->hdr.keep, eb.n); abort(); }
		{
			word *d = ww(nn), *b = wo(2 * nn), *c = wo(2 * nn);
			wwTrimHi(d, nn, prm->p[0] - 1);
			s2 = stk(ecMulA_deep(nn, ec->d, ec->deep, nn));
			if (!ecMulA(b, ec->base, ec, d, nn, s2.p)) wwCopy(b, ec->base, 2 * nn);   /* d*P == O: b is not written */
			bfree(s2);
			s2 = stk(ec2IsValid_deep(nn));
			ec2IsValid(ec, s2.p);
			bfree(s2);
			s2 = stk(ec2SeemsValidGroup_deep(nn, f->deep));
			ec2SeemsValidGroup(ec, s2.p);
			bfree(s2);
			s2 = stk(ec2IsOnA_deep(nn, f->deep));
			ec2IsOnA(b, ec, s2.p);
			bfree(s2);
			s2 = stk(ec2AddAA_deep(nn, f->deep));
			ec2AddAA(c, b, ec->base, ec, s2.p);
			ec2AddAA(c, b, b, ec, s2.p);
			bfree(s2);
			s2 = stk(ec2SubAA_deep(nn, f->deep));
			ec2SubAA(c, b, ec->base, ec, s2.p);
			bfree(s2);
			s2 = stk(ecHasOrderA_deep(nn, ec->d, ec->deep, nn));
			ecHasOrderA(ec->base, ec, ec->order, nn, s2.p);
			bfree(s2);
			s2 = stk(ec2IsSafeGroup_deep(nn));
			ec2IsSafeGroup(ec, 10, s2.p);
			bfree(s2);
			/* the point (0, sqrt(B)) lies on every curve y^2 + xy = x^3 + A x^2 + B and has order 2: d * a runs
			   through the O-producing branches of the doubling/addition formulas (regression of d1f400e) */
			{
				word *a2 = ww(2 * nn), *d7 = ww(1), *o = wo(2 * nn);
				size_t i;
				buf_t s3 = stk(f->deep);
				wwSetZero(a2, nn);
				wwCopy(a2 + nn, ec->B, nn);
				for (i = 1; i < prm->p[0]; ++i) qrSqr(a2 + nn, a2 + nn, f, s3.p);
				bfree(s3);
				s3 = stk(ecMulA_deep(nn, ec->d, ec->deep, 1));
				d7[0] = 7;
				if (!ecMulA(o, a2, ec, d7, 1, s3.p)) wwCopy(o, a2, 2 * nn);
				d7[0] = 6;
				if (!ecMulA(o, a2, ec, d7, 1, s3.p)) wwCopy(o, a2, 2 * nn);
				bfree(s3);
				wfree(a2, 2 * nn); wfree(d7, 1); wfree(o, 2 * nn);
			}
			wfree(d, nn); wfree(b, 2 * nn); wfree(c, 2 * nn);
		}
		bfree(eb); bfree(fb); free(prm);
		return 1;
	}
	return 0;
}

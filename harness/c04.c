/* C04 harness: bake (BMQV, BSTS, BPACE) and the token protocol BAUTH on the real library.

     run <P> <ci> <kca> <kcb> <ha|N> <hb|N> <keyA> <keyB> <certA> <certB> <tapeA> <tapeB> <s|r> [tamper ...]
         P = bmqv | bsts | bpace | bauth;  ci = 0/1/2 = bignParamsStd("1.2.112.0.2.0.34.101.45.3.{1,2,3}")
         keyA/keyB = private keys (passwords for bpace), certX = certificate data ("-" for bpace),
         tapeX = the party's generator: every request is served from the tape, zero octets once exhausted
         mode s: Start, Step2, Step3 ... called by hand, messages carried in exact-size buffers
         mode r: RunA / RunB over an in-memory channel (restart scheme of test/bake_test.c)
         tamper = k:off:hex (overwrite message k at offset off) | k:=:hex (replace message k)
       -> honest result [ | tamper>result ]*
          mode s result: S=<startB>,<startA> {B2|A3|B4|A5|B6}=<err>:<out> ... K=<keyA|->,<keyB|-> [L=<err>]
          mode r result: R=<errA>:<keyA|->,<errB>:<keyB|-> BA=<m1>,<m3> AB=<m2>,<m4>
         modes sx / rx: two more arguments before the tampers = A's certificate as B holds it,
         B's certificate as A holds it (BMQV Step3/Step4/RunA/RunB, BAUTH CTStep2)
     kdf <secret> <iv> <num>   -> key
     hash <data>               -> belt-hash (helper of the search oracle)
     swu <ci> <msg>            -> point
   Every state is an exact-size allocation of *_keep(l) octets, every message an exact-size buffer
   (ASan traps any access outside).  In BAUTH side A is the terminal (T), side B the token (CT). */
#include <bee2/core/err.h>
#include <bee2/core/mem.h>
#include <bee2/core/blob.h>
#include <bee2/crypto/belt.h>
#include <bee2/crypto/bign.h>
#include <bee2/crypto/bake.h>
#include <bee2/crypto/btok.h>
static void handle(int argc, char** argv);
#include "common.h"

static const char* std_names[3] = {
	"1.2.112.0.2.0.34.101.45.3.1", "1.2.112.0.2.0.34.101.45.3.2", "1.2.112.0.2.0.34.101.45.3.3" };

typedef struct { const octet* p0; size_t len0; const octet* p; size_t len; } tape_t;

static void tape_gen(void* buf, size_t count, void* state)
{
	tape_t* t = (tape_t*)state;
	size_t k = t->len < count ? t->len : count;
	memcpy(buf, t->p, k);
	memset((octet*)buf + k, 0, count - k);
	t->p += k, t->len -= k;
}

static err_t cert_val(octet* pubkey, const bign_params* params, const octet* data, size_t len)
{
	size_t k = params->l / 2;
	if (len < k) return ERR_BAD_CERT;
	if (len > k && data[0] == 0xEE) return ERR_BAD_SIG;
	if (pubkey) memcpy(pubkey, data + (len - k), k);
	return ERR_OK;
}

/* exact-size buffer (size 0: a 1-octet allocation entered at its end) */
static octet* xalloc(size_t n) { octet* p = (octet*)malloc(n ? n : 1); return n ? p : p + 1; }
static void xfree(octet* p, size_t n) { if (p) free(n ? p : p - 1); }

typedef struct { int k; int replace; size_t off; octet* dat; size_t len; const char* txt; } tamper_t;

static int parse_tamper(char* s, tamper_t* t)
{
	char *a, *b;
	t->txt = strdup(s);
	a = strchr(s, ':'); if (!a) return 0; *a++ = 0;
	b = strchr(a, ':'); if (!b) return 0; *b++ = 0;
	if (strchr(b, ':')) return 0;
	t->k = (int)u_arg(s);
	t->replace = strcmp(a, "=") == 0;
	t->off = t->replace ? 0 : (size_t)u_arg(a);
	t->dat = hex_arg(b, &t->len);
	return 1;
}

/* the altered copy of message [len]m (exact size), 0 if the tamper does not apply */
static octet* apply_tamper(const tamper_t* t, int varlen, const octet* m, size_t len, size_t* nlen)
{
	octet* r;
	if (t->replace)
	{
		if (t->len != len && !varlen) return 0;
		r = xalloc(t->len); memcpy(r, t->dat, t->len); *nlen = t->len;
		return r;
	}
	if (t->len == 0 || t->off + t->len > len) return 0;
	r = xalloc(len); memcpy(r, m, len); memcpy(r + t->off, t->dat, t->len); *nlen = len;
	return r;
}

/* ------------------------------------------------------------------ scenario */
enum { BMQV, BSTS, BPACE, BAUTH };
typedef struct
{
	int P; size_t l, no;
	bign_params prm;
	bake_settings setA, setB;
	tape_t tapeA, tapeB;
	octet *ka, *kb; size_t kalen, kblen;
	bake_cert ca, cb;		/* own certificates */
	bake_cert ca2, cb2;		/* A's certificate as B holds it, B's as A holds it */
	octet *stA, *stB; size_t keepA, keepB;
} scn_t;

static scn_t S;

static int nsteps(void)
{
	switch (S.P)
	{
	case BMQV: return 3 + (S.setA.kcb ? 1 : 0);
	case BSTS: return 4;
	case BPACE: return 4 + (S.setA.kca ? 1 : 0);
	default: return 3 + (S.setA.kcb ? 1 : 0);
	}
}
static int varlen_msg(int k, int runmode)
{
	if (S.P == BSTS) return k == 2 || k == 3;
	if (S.P == BAUTH && !runmode) return k == 3;
	return 0;
}
static const char* step_name[5] = { "B2", "A3", "B4", "A5", "B6" };

static void reset_tapes(void)
{
	S.tapeA.p = S.tapeA.p0, S.tapeA.len = S.tapeA.len0;
	S.tapeB.p = S.tapeB.p0, S.tapeB.len = S.tapeB.len0;
}

static void alloc_states(void)
{
	size_t l = S.l;
	switch (S.P)
	{
	case BMQV: S.keepA = S.keepB = bakeBMQV_keep(l); break;
	case BSTS: S.keepA = S.keepB = bakeBSTS_keep(l); break;
	case BPACE: S.keepA = S.keepB = bakeBPACE_keep(l); break;
	default: S.keepA = btokBAuthT_keep(l); S.keepB = btokBAuthCT_keep(l); break;
	}
	/* experiment hook (docs/C04.md, "state sizes"): C04_SHRINK=<octets> takes that many octets off both states */
	if (getenv("C04_SHRINK")) { size_t d = (size_t)u_arg(getenv("C04_SHRINK")); S.keepA -= d; S.keepB -= d; }
	S.stA = xalloc(S.keepA); S.stB = xalloc(S.keepB);
	memset(S.stA, 0xA5, S.keepA); memset(S.stB, 0x5A, S.keepB);
}
static void free_states(void) { xfree(S.stA, S.keepA); xfree(S.stB, S.keepB); S.stA = S.stB = 0; }

static void starts(err_t* ea, err_t* eb)
{
	switch (S.P)
	{
	case BMQV:
		*eb = bakeBMQVStart(S.stB, &S.prm, &S.setB, S.kb, &S.cb);
		*ea = bakeBMQVStart(S.stA, &S.prm, &S.setA, S.ka, &S.ca);
		break;
	case BSTS:
		*eb = bakeBSTSStart(S.stB, &S.prm, &S.setB, S.kb, &S.cb);
		*ea = bakeBSTSStart(S.stA, &S.prm, &S.setA, S.ka, &S.ca);
		break;
	case BPACE:
		*eb = bakeBPACEStart(S.stB, &S.prm, &S.setB, S.kb, S.kblen);
		*ea = bakeBPACEStart(S.stA, &S.prm, &S.setA, S.ka, S.kalen);
		break;
	default:
		*eb = btokBAuthCTStart(S.stB, &S.prm, &S.setB, S.kb, &S.cb);
		*ea = btokBAuthTStart(S.stA, &S.prm, &S.setA, S.ka, &S.ca);
		break;
	}
}

/* step number idx (0 = B2, 1 = A3, ...) on the incoming message; *out = fresh exact-size buffer */
static err_t do_step(int idx, const octet* in, size_t inlen, octet** out, size_t* outlen)
{
	size_t no = S.no, n = 0;
	int kca = S.setA.kca != 0, kcb = S.setA.kcb != 0;
	err_t e = ERR_BAD_LOGIC;
	switch (S.P * 8 + idx)
	{
	case BMQV * 8 + 0: n = 2 * no; break;
	case BMQV * 8 + 1: n = 2 * no + (kca ? 8 : 0); break;
	case BMQV * 8 + 2: n = kcb ? 8 : 0; break;
	case BSTS * 8 + 0: n = 2 * no; break;
	case BSTS * 8 + 1: n = 3 * no + S.ca.len + 8; break;
	case BSTS * 8 + 2: n = no + S.cb.len + 8; break;
	case BPACE * 8 + 0: n = no / 2; break;
	case BPACE * 8 + 1: n = 5 * no / 2; break;
	case BPACE * 8 + 2: n = 2 * no + (kcb ? 8 : 0); break;
	case BPACE * 8 + 3: n = kca ? 8 : 0; break;
	case BAUTH * 8 + 0: n = 2 * no + no / 2 + 16; break;
	case BAUTH * 8 + 1: n = 8 + (kcb ? 16 : 0); break;
	case BAUTH * 8 + 2: n = kcb ? no + S.cb.len + 8 : 0; break;
	default: n = 0;
	}
	*out = xalloc(n); *outlen = n;
	memset(*out, 0xCC, n);
	switch (S.P * 8 + idx)
	{
	case BMQV * 8 + 0: e = bakeBMQVStep2(*out, S.stB); break;
	case BMQV * 8 + 1: e = bakeBMQVStep3(*out, in, &S.cb2, S.stA); break;
	case BMQV * 8 + 2: e = bakeBMQVStep4(*out, in, &S.ca2, S.stB); break;
	case BMQV * 8 + 3: e = bakeBMQVStep5(in, S.stA); break;
	case BSTS * 8 + 0: e = bakeBSTSStep2(*out, S.stB); break;
	case BSTS * 8 + 1: e = bakeBSTSStep3(*out, in, S.stA); break;
	case BSTS * 8 + 2: e = bakeBSTSStep4(*out, in, inlen, cert_val, S.stB); break;
	case BSTS * 8 + 3: e = bakeBSTSStep5(in, inlen, cert_val, S.stA); break;
	case BPACE * 8 + 0: e = bakeBPACEStep2(*out, S.stB); break;
	case BPACE * 8 + 1: e = bakeBPACEStep3(*out, in, S.stA); break;
	case BPACE * 8 + 2: e = bakeBPACEStep4(*out, in, S.stB); break;
	case BPACE * 8 + 3: e = bakeBPACEStep5(*out, in, S.stA); break;
	case BPACE * 8 + 4: e = bakeBPACEStep6(in, S.stB); break;
	case BAUTH * 8 + 0: e = btokBAuthCTStep2(*out, &S.ca2, S.stB); break;
	case BAUTH * 8 + 1: e = btokBAuthTStep3(*out, in, S.stA); break;
	case BAUTH * 8 + 2: e = btokBAuthCTStep4(*out, in, S.stB); break;
	case BAUTH * 8 + 3: e = btokBAuthTStep5(in, inlen, cert_val, S.stA); break;
	}
	return e;
}

static void put_key(int isA)
{
	octet key[32];
	err_t e;
	switch (S.P)
	{
	case BMQV: e = bakeBMQVStepG(key, isA ? S.stA : S.stB); break;
	case BSTS: e = bakeBSTSStepG(key, isA ? S.stA : S.stB); break;
	case BPACE: e = bakeBPACEStepG(key, isA ? S.stA : S.stB); break;
	default: e = isA ? btokBAuthTStepG(key, S.stA) : btokBAuthCTStepG(key, S.stB); break;
	}
	if (e == ERR_OK) put_hex(key, 32); else printf("E%u", (unsigned)e);
}

/* one complete step-by-step run; message t->k (if t) is altered before its receiver sees it;
   tokens are printed from step `from` on.  Returns the number of steps attempted, -1 = tamper skipped,
   -2 = a Start failed. */
static int run_steps(const tamper_t* t, int from, int print_start, int extra)
{
	err_t ea, eb, e;
	int idx, ns = nsteps(), attempted = 0, failed = 0, first = 1;
	octet* msg = xalloc(0); size_t mlen = 0;
	reset_tapes();
	alloc_states();
	starts(&ea, &eb);
	if (print_start) printf("S=%u,%u", (unsigned)eb, (unsigned)ea), first = 0;
	if (ea != ERR_OK || eb != ERR_OK) { free_states(); xfree(msg, mlen); return -2; }
	for (idx = 0; idx < ns; ++idx)
	{
		octet* out; size_t olen;
		if (t && t->k == idx)
		{
			size_t nl; octet* m2 = apply_tamper(t, varlen_msg(idx, 0), msg, mlen, &nl);
			if (!m2) { printf("skip"); free_states(); xfree(msg, mlen); return -1; }
			xfree(msg, mlen); msg = m2, mlen = nl;
		}
		++attempted;
		e = do_step(idx, msg, mlen, &out, &olen);
		if (idx >= from)
		{
			if (!first) fputc(' ', stdout);
			first = 0;
			printf("%s=%u:", step_name[idx], (unsigned)e);
			if (e == ERR_OK) put_hex(out, olen); else fputc('-', stdout);
		}
		xfree(msg, mlen); msg = out, mlen = olen;
		if (e != ERR_OK) { failed = 1; break; }
	}
	{
		/* a party holds a key iff none of its steps is pending (B: even indices, A: odd) */
		int done = failed ? attempted - 1 : attempted, a_done = 1, b_done = 1;
		for (idx = done; idx < ns; ++idx) if (idx & 1) a_done = 0; else b_done = 0;
		printf("%sK=", first ? "" : " ");
		if (a_done) put_key(1); else fputc('-', stdout);
		fputc(',', stdout);
		if (b_done) put_key(0); else fputc('-', stdout);
	}
	if (extra)
	{
		/* the confirmation step that the flags switch off must answer ERR_BAD_LOGIC */
		octet* pad = xalloc(8 + S.no); memset(pad, 0, 8 + S.no);
		if (S.P == BMQV && !S.setA.kcb) printf(" L=%u", (unsigned)bakeBMQVStep5(pad, S.stA));
		if (S.P == BPACE && !S.setA.kca) printf(" L=%u", (unsigned)bakeBPACEStep6(pad, S.stB));
		if (S.P == BAUTH && !S.setA.kcb) printf(" L=%u", (unsigned)btokBAuthTStep5(pad, 8 + S.no, cert_val, S.stA));
		xfree(pad, 8 + S.no);
	}
	free_states(); xfree(msg, mlen);
	return attempted;
}

/* ------------------------------------------------------------------ RunA / RunB over a channel */
typedef struct { octet* buf; size_t len; octet* dlv; size_t dlen; int valid; } msg_t;
static msg_t chan[2][4];			/* [0] = B->A (M1, M3), [1] = A->B (M2, M4) */
static const tamper_t* run_tam;
typedef struct { int rd, wr; size_t ri, roff, wi; } file_t;

static void chan_flush(void)
{
	int d, i;
	for (d = 0; d < 2; ++d) for (i = 0; i < 4; ++i)
	{
		if (chan[d][i].valid) xfree(chan[d][i].buf, chan[d][i].len), xfree(chan[d][i].dlv, chan[d][i].dlen);
		memset(&chan[d][i], 0, sizeof(msg_t));
	}
}

static err_t ch_write(size_t* written, const void* buf, size_t count, void* file)
{
	file_t* f = (file_t*)file;
	msg_t* m;
	int k;
	if (f->wi >= 4) return ERR_FILE_WRITE;
	m = &chan[f->wr][f->wi];
	if (m->valid) xfree(m->buf, m->len), xfree(m->dlv, m->dlen);
	m->buf = xalloc(count); memcpy(m->buf, buf, count); m->len = count; m->valid = 1;
	/* what the channel delivers */
	k = f->wr == 0 ? 1 + 2 * (int)f->wi : 2 + 2 * (int)f->wi;
	m->dlv = 0;
	if (run_tam && run_tam->k == k) m->dlv = apply_tamper(run_tam, varlen_msg(k, 1), m->buf, m->len, &m->dlen);
	if (!m->dlv) { m->dlv = xalloc(count); memcpy(m->dlv, buf, count); m->dlen = count; }
	*written = count;
	++f->wi;
	return ERR_OK;
}

static err_t ch_read(size_t* read, void* buf, size_t count, void* file)
{
	file_t* f = (file_t*)file;
	msg_t* m;
	if (f->ri >= 4) return ERR_FILE_READ;
	m = &chan[f->rd][f->ri];
	if (!m->valid) return ERR_FILE_NOT_FOUND;
	if (f->roff + count > m->dlen)
	{
		memcpy(buf, m->dlv + f->roff, *read = m->dlen - f->roff);
		++f->ri, f->roff = 0;
		return ERR_MAX;
	}
	memcpy(buf, m->dlv + f->roff, *read = count);
	f->roff += count;
	if (f->roff == m->dlen) ++f->ri, f->roff = 0;
	return ERR_OK;
}

static int valid_count(void)
{
	int d, i, c = 0;
	for (d = 0; d < 2; ++d) for (i = 0; i < 4; ++i) c += chan[d][i].valid;
	return c;
}

static void run_drivers(const tamper_t* t)
{
	err_t ea = ERR_FILE_NOT_FOUND, eb = ERR_FILE_NOT_FOUND;
	octet *keya = xalloc(32), *keyb = xalloc(32);
	int round, d, i;
	run_tam = t;
	chan_flush();
	for (round = 0; round < 8; ++round)
	{
		file_t fa = { 0, 1, 0, 0, 0 }, fb = { 1, 0, 0, 0, 0 };
		int before = valid_count();
		reset_tapes();
		switch (S.P)
		{
		case BMQV:
			eb = bakeBMQVRunB(keyb, &S.prm, &S.setB, S.kb, &S.cb, &S.ca2, ch_read, ch_write, &fb);
			ea = bakeBMQVRunA(keya, &S.prm, &S.setA, S.ka, &S.ca, &S.cb2, ch_read, ch_write, &fa);
			break;
		case BSTS:
			eb = bakeBSTSRunB(keyb, &S.prm, &S.setB, S.kb, &S.cb, cert_val, ch_read, ch_write, &fb);
			ea = bakeBSTSRunA(keya, &S.prm, &S.setA, S.ka, &S.ca, cert_val, ch_read, ch_write, &fa);
			break;
		default:
			eb = bakeBPACERunB(keyb, &S.prm, &S.setB, S.kb, S.kblen, ch_read, ch_write, &fb);
			ea = bakeBPACERunA(keya, &S.prm, &S.setA, S.ka, S.kalen, ch_read, ch_write, &fa);
			break;
		}
		if (valid_count() == before) break;
	}
	printf("R=%u:", (unsigned)ea);
	if (ea == ERR_OK) put_hex(keya, 32); else fputc('-', stdout);
	printf(",%u:", (unsigned)eb);
	if (eb == ERR_OK) put_hex(keyb, 32); else fputc('-', stdout);
	for (d = 0; d < 2; ++d)
	{
		printf(d ? " AB=" : " BA=");
		if (!chan[d][0].valid) fputc('.', stdout);
		for (i = 0; i < 4 && chan[d][i].valid; ++i)
		{
			if (i) fputc(',', stdout);
			put_hex(chan[d][i].buf, chan[d][i].len);
		}
	}
	chan_flush();
	xfree(keya, 32); xfree(keyb, 32);
}

/* ------------------------------------------------------------------ ops */
static void handle(int argc, char** argv)
{
	if (argc == 4 && strcmp(argv[0], "kdf") == 0)
	{
		size_t sl, il; octet key[32];
		octet* s = hex_arg(argv[1], &sl); octet* iv = hex_arg(argv[2], &il);
		err_t e = bakeKDF(key, s, sl, iv, il, (size_t)u_arg(argv[3]));
		if (e == ERR_OK) put_hex(key, 32); else printf("E%u", (unsigned)e);
		hex_free(s, sl); hex_free(iv, il);
		return;
	}
	if (argc == 2 && strcmp(argv[0], "hash") == 0)
	{
		size_t dl; octet h[32]; octet* d = hex_arg(argv[1], &dl);
		beltHash(h, d, dl);
		put_hex(h, 32);
		hex_free(d, dl);
		return;
	}
	if (argc == 3 && strcmp(argv[0], "swu") == 0)
	{
		bign_params prm; size_t ml; octet* m; octet* pt; err_t e;
		unsigned ci = (unsigned)u_arg(argv[1]);
		if (ci > 2 || bignParamsStd(&prm, std_names[ci]) != ERR_OK) { printf("bad-op"); return; }
		m = hex_arg(argv[2], &ml);
		if (ml != prm.l / 4) { printf("bad-op"); hex_free(m, ml); return; }
		pt = xalloc(prm.l / 2);
		e = bakeSWU(pt, &prm, m);
		if (e == ERR_OK) put_hex(pt, prm.l / 2); else printf("E%u", (unsigned)e);
		xfree(pt, prm.l / 2); hex_free(m, ml);
		return;
	}
	if (argc >= 14 && strcmp(argv[0], "run") == 0)
	{
		static tamper_t tams[MAXTOK];
		int nt = 0, i, att, t0 = 14;
		size_t ca2l = 0, cb2l = 0; octet *ca2 = 0, *cb2 = 0;
		char mode;
		unsigned ci = (unsigned)u_arg(argv[2]);
		size_t hal = 0, hbl = 0, cal, cbl, tal, tbl;
		octet *ha = 0, *hb = 0, *cad, *cbd, *ta, *tb;
		const char* P = argv[1];
		memset(&S, 0, sizeof S);
		S.P = strcmp(P, "bmqv") == 0 ? BMQV : strcmp(P, "bsts") == 0 ? BSTS : strcmp(P, "bpace") == 0 ? BPACE :
			strcmp(P, "bauth") == 0 ? BAUTH : -1;
		if (S.P < 0 || ci > 2 || bignParamsStd(&S.prm, std_names[ci]) != ERR_OK) { printf("bad-op"); return; }
		S.l = S.prm.l, S.no = S.l / 4;
		if (strcmp(argv[5], "N")) ha = hex_arg(argv[5], &hal);
		if (strcmp(argv[6], "N")) hb = hex_arg(argv[6], &hbl);
		S.ka = hex_arg(argv[7], &S.kalen); S.kb = hex_arg(argv[8], &S.kblen);
		cad = hex_arg(argv[9], &cal); cbd = hex_arg(argv[10], &cbl);
		ta = hex_arg(argv[11], &tal); tb = hex_arg(argv[12], &tbl);
		if (S.P != BPACE && (S.kalen != S.no || S.kblen != S.no)) { printf("bad-op"); return; }
		S.setA.kca = S.setB.kca = (bool_t)u_arg(argv[3]);
		S.setA.kcb = S.setB.kcb = (bool_t)u_arg(argv[4]);
		S.setA.helloa = S.setB.helloa = ha; S.setA.helloa_len = S.setB.helloa_len = hal;
		S.setA.hellob = S.setB.hellob = hb; S.setA.hellob_len = S.setB.hellob_len = hbl;
		S.setA.rng = S.setB.rng = tape_gen;
		S.setA.rng_state = &S.tapeA; S.setB.rng_state = &S.tapeB;
		S.tapeA.p0 = ta, S.tapeA.len0 = tal; S.tapeB.p0 = tb, S.tapeB.len0 = tbl;
		S.ca.data = cad, S.ca.len = cal, S.ca.val = cert_val;
		S.cb.data = cbd, S.cb.len = cbl, S.cb.val = cert_val;
		S.ca2 = S.ca, S.cb2 = S.cb;
		mode = argv[13][0];
		if (strcmp(argv[13], "sx") == 0 || strcmp(argv[13], "rx") == 0)
		{
			/* A's certificate as B holds it, B's certificate as A holds it */
			if (argc < 16) { printf("bad-op"); return; }
			ca2 = hex_arg(argv[14], &ca2l); cb2 = hex_arg(argv[15], &cb2l);
			S.ca2.data = ca2, S.ca2.len = ca2l; S.cb2.data = cb2, S.cb2.len = cb2l;
			t0 = 16;
		}
		else if (argv[13][1]) { printf("bad-op"); return; }
		for (i = t0; i < argc; ++i)
			if (!parse_tamper(argv[i], &tams[nt++])) { printf("bad-op"); return; }
		if (mode == 's')
		{
			att = run_steps(0, 0, 1, 1);
			for (i = 0; i < nt && att != -2; ++i)
			{
				printf(" | %s>", tams[i].txt);
				if (tams[i].k <= 0 || tams[i].k >= att) { printf("skip"); continue; }
				run_steps(&tams[i], tams[i].k, 0, 0);
			}
		}
		else if (mode == 'r' && S.P != BAUTH)
		{
			run_drivers(0);
			for (i = 0; i < nt; ++i)
			{
				printf(" | %s>", tams[i].txt);
				run_drivers(&tams[i]);
			}
		}
		else printf("bad-op");
		for (i = 0; i < nt; ++i) { hex_free(tams[i].dat, tams[i].len); free((void*)tams[i].txt); }
		if (ha) hex_free(ha, hal);
		if (hb) hex_free(hb, hbl);
		hex_free(S.ka, S.kalen); hex_free(S.kb, S.kblen); hex_free(cad, cal); hex_free(cbd, cbl);
		hex_free(ta, tal); hex_free(tb, tbl);
		if (ca2) hex_free(ca2, ca2l);
		if (cb2) hex_free(cb2, cb2l);
		return;
	}
	printf("bad-op");
}

/* C03 harness part: belt block / compression / hash / HMAC ops on the REAL library.
   Included by harness/c03.c after common.h and <bee2/crypto/belt.h>.
     belt.encr  <x16> <key32>             -> beltBlockEncr2 (u32 interface, as used by beltCompr): 16 octets
     belt.compr <h32> <x32>               -> beltCompr: 32 octets
     belt.hash  <chunk> <chunk> ...       -> beltHashStart; per chunk: beltHashStepH, beltHashStepG;
                                             the StepG values separated by single spaces
     belt.hmac  <key> <chunk> <chunk> ... -> beltHMACStart(key); per chunk: beltHMACStepA, beltHMACStepG
     belt.addbits <block16> <count>       -> beltBlockAddBitSizeU32(block, count), count decimal < 2^64:
                                             16 octets (the 128-bit bit counter; reaches the high words,
                                             which no feasible hash input does)
   handle_belt returns 1 if the op name is one of these (one line printed, "bad-op" for
   malformed arguments), 0 otherwise (nothing printed).
   Every input is an exact-size heap blob (hex_arg), states are exact-size mallocs of
   beltHash_keep() / beltHMAC_keep() octets, so ASan traps any over-read/over-write. */
#ifndef BEE2V_C03_BELT_H
#define BEE2V_C03_BELT_H
#include <bee2/core/u32.h>
#include <bee2/crypto/belt.h>
#include <errno.h>
#include "crypto/belt/belt_lcl.h"

static int belt_hex_ok_(const char* s)
{
	size_t n;
	if (strcmp(s, "-") == 0) return 1;
	n = strlen(s);
	if (n == 0 || n % 2) return 0;
	for (; *s; ++s) if (hv_(*s) < 0) return 0;
	return 1;
}

static int handle_belt(int argc, char** argv)
{
	int i;
	if (argc < 1) return 0;
	if (strcmp(argv[0], "belt.encr") && strcmp(argv[0], "belt.compr") &&
		strcmp(argv[0], "belt.hash") && strcmp(argv[0], "belt.hmac") &&
		strcmp(argv[0], "belt.addbits"))
		return 0;
	if (strcmp(argv[0], "belt.addbits") == 0)
	{
		size_t lb;
		unsigned char* b;
		const char* p;
		unsigned long long cnt;
		u32 block[4];
		unsigned char out[16];
		if (argc != 3 || !belt_hex_ok_(argv[1]) || !argv[2][0]) { printf("bad-op"); return 1; }
		for (p = argv[2]; *p; ++p)
			if (*p < '0' || *p > '9') { printf("bad-op"); return 1; }
		errno = 0;
		cnt = strtoull(argv[2], 0, 10);
		if (errno) { printf("bad-op"); return 1; }
		b = hex_arg(argv[1], &lb);
		if (lb != 16) printf("bad-op");
		else
		{
			u32From(block, b, 16);
			beltBlockAddBitSizeU32(block, (size_t)cnt);
			u32To(out, 16, block);
			put_hex(out, 16);
		}
		hex_free(b, lb);
		return 1;
	}
	for (i = 1; i < argc; ++i)
		if (!belt_hex_ok_(argv[i])) { printf("bad-op"); return 1; }
	if (strcmp(argv[0], "belt.encr") == 0)
	{
		size_t lx, lk;
		unsigned char *x, *k;
		u32 block[4], key[8];
		unsigned char out[16];
		if (argc != 3) { printf("bad-op"); return 1; }
		x = hex_arg(argv[1], &lx), k = hex_arg(argv[2], &lk);
		if (lx != 16 || lk != 32) printf("bad-op");
		else
		{
			u32From(block, x, 16);
			u32From(key, k, 32);
			beltBlockEncr2(block, key);
			u32To(out, 16, block);
			put_hex(out, 16);
		}
		hex_free(x, lx), hex_free(k, lk);
		return 1;
	}
	if (strcmp(argv[0], "belt.compr") == 0)
	{
		size_t lh, lx;
		unsigned char *h, *x;
		if (argc != 3) { printf("bad-op"); return 1; }
		h = hex_arg(argv[1], &lh), x = hex_arg(argv[2], &lx);
		if (lh != 32 || lx != 32) printf("bad-op");
		else
		{
			u32* hw = (u32*)malloc(32);
			u32* xw = (u32*)malloc(32);
			void* stack = malloc(beltCompr_deep());
			unsigned char out[32];
			u32From(hw, h, 32);
			u32From(xw, x, 32);
			beltCompr(hw, xw, stack);
			u32To(out, 32, hw);
			put_hex(out, 32);
			free(hw), free(xw), free(stack);
		}
		hex_free(h, lh), hex_free(x, lx);
		return 1;
	}
	if (strcmp(argv[0], "belt.hash") == 0)
	{
		void* st;
		if (argc < 2) { printf("bad-op"); return 1; }
		st = malloc(beltHash_keep());
		beltHashStart(st);
		for (i = 1; i < argc; ++i)
		{
			size_t n;
			unsigned char* c = hex_arg(argv[i], &n);
			unsigned char* out = (unsigned char*)malloc(32);
			beltHashStepH(c, n, st);
			beltHashStepG(out, st);
			if (i > 1) fputc(' ', stdout);
			put_hex(out, 32);
			free(out);
			hex_free(c, n);
		}
		free(st);
		return 1;
	}
	/* belt.hmac */
	{
		void* st;
		size_t lk;
		unsigned char* key;
		if (argc < 3) { printf("bad-op"); return 1; }
		key = hex_arg(argv[1], &lk);
		st = malloc(beltHMAC_keep());
		beltHMACStart(st, key, lk);
		hex_free(key, lk);
		for (i = 2; i < argc; ++i)
		{
			size_t n;
			unsigned char* c = hex_arg(argv[i], &n);
			unsigned char* out = (unsigned char*)malloc(32);
			beltHMACStepA(c, n, st);
			beltHMACStepG(out, st);
			if (i > 2) fputc(' ', stdout);
			put_hex(out, 32);
			free(out);
			hex_free(c, n);
		}
		free(st);
		return 1;
	}
}
#endif

/* C11 harness: overlap placements on the real library.

   Every op works on ONE arena (an exact-size malloc block, so ASan traps any access outside
   it and any memcpy on overlapping buffers).  Pointer arguments are decimal offsets into the
   arena ("N" = null pointer).  Output: `<ret> <arena after the call>`; ret is the decimal
   err_t / size_t result ("-" for void, "max" for SIZE_MAX).

     memMove A d s n | memJoin A d s1 n1 s2 n2 | memXor A d s1 s2 n | memXor2 A d s n
     beltKeyExpand A d k len | beltKeyExpand2 A d k len
     belt{CBC,CFB,BDE,SDE}{Encr,Decr} A d s n k len iv | beltCTR ... | beltECB{Encr,Decr} A d s n k len
     beltFMT{Encr,Decr} A d mod s n k len iv
     beltMAC A mac s n k len | beltHMAC A mac s n k len | beltHash A h s n | bashHash A l h s n
     belt{DWP,CHE}Wrap A d mac s1 n1 s2 n2 k len iv | belt{DWP,CHE}Unwrap A d s1 n1 s2 n2 mac k len iv
     beltKWPWrap A d s n hdr k len | beltKWPUnwrap A d s n hdr k len
     beltKRP A d m s n level hdr
     derEnc A der tag val len | derTUINTEnc | derTBITEnc (len in bits) | derTPSTREnc A der tag val
     derTUINTDec A val lenp der count tag | derTBITDec | derTOCTDec | derTPSTRDec
     derTUINTDec2 A val der count tag len | derTBITDec2 | derTOCTDec2
   Extra trailing tokens (the oracle values used by the Lean driver) are ignored.

   State-resident placements (key inside the state of a Start function, mac/hash inside the
   state of a StepG function):
   Math headers (word arrays; addresses are octet offsets, multiples of the word size; n in words; w decimal):
     wwCopy A b a n | wwXor A c a b n | wwXor2 A b a n | zzAdd A c a b n | zzAdd2 A b a n | zzAdd3 A c a n b m
     zzAddW A b a n w | zzSub | zzSub2 | zzSubW | zzNeg A b a n | zzMulW A b a n w | zzAddMulW | zzSubMulW | zzDivW A q a n w
     zzAddMod A c a b mod n | zzSubMod | zzAddWMod A b a w mod n | zzSubWMod | zzNegMod A b a mod n | zzDoubleMod | zzHalfMod
     ppMulW A b a n w | ppAddMulW A b a n w                      -> `<returned word or -> <arena>`
   DSTU (standard curve i = 0..9 of dstuParamsStd):
     dstuBase i -> base point P;  dstuPointCompress A xpoint point i | dstuPointRecover A point xpoint i
     keep <mode>                          -> `<keep size>`
     start <mode> A koff len keyhex ivhex -> probe output of the state after Start(state=A, key=A+koff | keyhex if koff=N)
     stepg <mode> A moff n datahex        -> the n octets produced by StepG(mac = A+moff | separate if moff=N, state=A)
*/
#include <bee2/core/mem.h>
#include <bee2/core/der.h>
#include <bee2/core/err.h>
#include <bee2/core/util.h>
#include <bee2/crypto/belt.h>
#include <bee2/crypto/bash.h>
#include <bee2/crypto/dstu.h>
#include <bee2/math/ww.h>
#include <bee2/math/zz.h>
#include <bee2/math/pp.h>
static void handle(int argc, char** argv);
#include "common.h"

static octet* A;
static size_t An;

#define IS(s) (strcmp(argv[0], s) == 0)
#define P(i) (strcmp(argv[i], "N") == 0 ? (octet*)0 : A + u_arg(argv[i]))
#define U(i) ((size_t)u_arg(argv[i]))

static void put_ret_size(size_t r)
{
	if (r == SIZE_MAX) printf("max"); else printf("%zu", r);
}

static void finish_err(err_t e) { printf("%u ", (unsigned)e); put_hex(A, An); }
static void finish_size(size_t r) { put_ret_size(r); fputc(' ', stdout); put_hex(A, An); }
static void finish_void(void) { printf("- "); put_hex(A, An); }

typedef err_t (*mode6_f)(void*, const void*, size_t, const octet*, size_t, const octet*);
typedef err_t (*mode5_f)(void*, const void*, size_t, const octet*, size_t);

/* probes of a freshly started state: deterministic use of the state */
static const octet probe_data[48] = {
	0x01,0x23,0x45,0x67,0x89,0xab,0xcd,0xef,0x10,0x32,0x54,0x76,0x98,0xba,0xdc,0xfe,
	0x0f,0x1e,0x2d,0x3c,0x4b,0x5a,0x69,0x78,0x87,0x96,0xa5,0xb4,0xc3,0xd2,0xe1,0xf0,
	0x11,0x22,0x33,0x44,0x55,0x66,0x77,0x88,0x99,0xaa,0xbb,0xcc,0xdd,0xee,0xff,0x00 };

static size_t keep_of(const char* mode)
{
	if (!strcmp(mode, "WBL")) return beltWBL_keep();
	if (!strcmp(mode, "ECB")) return beltECB_keep();
	if (!strcmp(mode, "CBC")) return beltCBC_keep();
	if (!strcmp(mode, "CFB")) return beltCFB_keep();
	if (!strcmp(mode, "CTR")) return beltCTR_keep();
	if (!strcmp(mode, "MAC")) return beltMAC_keep();
	if (!strcmp(mode, "DWP")) return beltDWP_keep();
	if (!strcmp(mode, "CHE")) return beltCHE_keep();
	if (!strcmp(mode, "BDE")) return beltBDE_keep();
	if (!strcmp(mode, "SDE")) return beltSDE_keep();
	if (!strcmp(mode, "FMT")) return beltFMT_keep(10, 12);
	if (!strcmp(mode, "KRP")) return beltKRP_keep();
	if (!strcmp(mode, "HASH")) return beltHash_keep();
	if (!strcmp(mode, "HMAC")) return beltHMAC_keep();
	if (!strcmp(mode, "BASH")) return bashHash_keep();
	return 0;
}

static void do_start(int argc, char** argv)
{
	const char* mode = argv[1];
	size_t klen, kl2, ivl;
	octet* kbuf = hex_arg(argv[5], &kl2);
	octet* iv = hex_arg(argv[6], &ivl);
	size_t len = U(4);
	const octet* key = strcmp(argv[3], "N") ? A + U(3) : kbuf;
	octet buf[48];
	octet mac[8];
	u16 str[12];
	size_t i;
	(void)klen;
	memcpy(buf, probe_data, 48);
	if (An < keep_of(mode)) { printf("bad-op"); return; }
	if (!strcmp(mode, "WBL")) beltWBLStart(A, key, len), beltWBLStepE(buf, 48, A), put_hex(buf, 48);
	else if (!strcmp(mode, "ECB")) beltECBStart(A, key, len), beltECBStepE(buf, 48, A), put_hex(buf, 48);
	else if (!strcmp(mode, "CBC")) beltCBCStart(A, key, len, iv), beltCBCStepE(buf, 48, A), put_hex(buf, 48);
	else if (!strcmp(mode, "CFB")) beltCFBStart(A, key, len, iv), beltCFBStepE(buf, 48, A), put_hex(buf, 48);
	else if (!strcmp(mode, "CTR")) beltCTRStart(A, key, len, iv), beltCTRStepE(buf, 48, A), put_hex(buf, 48);
	else if (!strcmp(mode, "MAC")) beltMACStart(A, key, len), beltMACStepA(buf, 48, A), beltMACStepG(mac, A), put_hex(mac, 8);
	else if (!strcmp(mode, "DWP"))
		beltDWPStart(A, key, len, iv), beltDWPStepI(buf, 16, A), beltDWPStepE(buf + 16, 32, A),
		beltDWPStepA(buf + 16, 32, A), beltDWPStepG(mac, A), put_hex(buf, 48), put_hex(mac, 8);
	else if (!strcmp(mode, "CHE"))
		beltCHEStart(A, key, len, iv), beltCHEStepI(buf, 16, A), beltCHEStepE(buf + 16, 32, A),
		beltCHEStepA(buf + 16, 32, A), beltCHEStepG(mac, A), put_hex(buf, 48), put_hex(mac, 8);
	else if (!strcmp(mode, "BDE")) beltBDEStart(A, key, len, iv), beltBDEStepE(buf, 48, A), put_hex(buf, 48);
	else if (!strcmp(mode, "SDE")) beltSDEStart(A, key, len), beltSDEStepE(buf, 48, iv, A), put_hex(buf, 48);
	else if (!strcmp(mode, "FMT"))
	{
		for (i = 0; i < 12; ++i) str[i] = (u16)(probe_data[i] % 10);
		beltFMTStart(A, 10, 12, key, len), beltFMTStepE(str, iv, A), put_hex(str, 24);
	}
	else if (!strcmp(mode, "KRP")) beltKRPStart(A, key, len, iv), beltKRPStepG(buf, 16, probe_data + 16, A), put_hex(buf, 16);
	else printf("bad-op");
	hex_free(kbuf, kl2);
	hex_free(iv, ivl);
}

static void do_stepg(int argc, char** argv)
{
	static const octet key[32] = { 1,2,3,4,5,6,7,8,9,10,11,12,13,14,15,16,17,18,19,20,21,22,23,24,25,26,27,28,29,30,31,32 };
	const char* mode = argv[1];
	size_t n = U(4), dl;
	octet* data = hex_arg(argv[5], &dl);
	octet out[64];
	octet* mac = strcmp(argv[3], "N") ? A + U(3) : out;
	if (An < keep_of(mode) || n > 64) { printf("bad-op"); return; }
	if (!strcmp(mode, "MAC")) beltMACStart(A, key, 32), beltMACStepA(data, dl, A), beltMACStepG(mac, A);
	else if (!strcmp(mode, "MAC2")) beltMACStart(A, key, 32), beltMACStepA(data, dl, A), beltMACStepG2(mac, n, A);
	else if (!strcmp(mode, "HASH")) beltHashStart(A), beltHashStepH(data, dl, A), beltHashStepG(mac, A);
	else if (!strcmp(mode, "HASH2")) beltHashStart(A), beltHashStepH(data, dl, A), beltHashStepG2(mac, n, A);
	else if (!strcmp(mode, "HMAC2")) beltHMACStart(A, key, 32), beltHMACStepA(data, dl, A), beltHMACStepG2(mac, n, A);
	else if (!strcmp(mode, "BASH")) bashHashStart(A, 128), bashHashStepH(data, dl, A), bashHashStepG(mac, n, A);
	else { printf("bad-op"); return; }
	put_hex(mac, n);
	hex_free(data, dl);
}

#define W(i) ((word*)P(i))
#define WU(i) ((word)strtoull(argv[i], 0, 10))
static void finish_word(word r) { printf("%llu ", (unsigned long long)r); put_hex(A, An); }

static const char* dstu_names[] = {
	"1.2.804.2.1.1.1.1.3.1.1.1.2.0", "1.2.804.2.1.1.1.1.3.1.1.1.2.1", "1.2.804.2.1.1.1.1.3.1.1.1.2.2",
	"1.2.804.2.1.1.1.1.3.1.1.1.2.3", "1.2.804.2.1.1.1.1.3.1.1.1.2.4", "1.2.804.2.1.1.1.1.3.1.1.1.2.5",
	"1.2.804.2.1.1.1.1.3.1.1.1.2.6", "1.2.804.2.1.1.1.1.3.1.1.1.2.7", "1.2.804.2.1.1.1.1.3.1.1.1.2.8",
	"1.2.804.2.1.1.1.1.3.1.1.1.2.9" };

/* returns 1 if the op was a math/dstu op */
static int handle_math(int argc, char** argv)
{
	static octet stack[4096];
	if (IS("wwCopy") && argc >= 5) wwCopy(W(2), W(3), U(4)), finish_void();
	else if (IS("wwXor") && argc >= 6) wwXor(W(2), W(3), W(4), U(5)), finish_void();
	else if (IS("wwXor2") && argc >= 5) wwXor2(W(2), W(3), U(4)), finish_void();
	else if (IS("zzAdd") && argc >= 6) finish_word(zzAdd(W(2), W(3), W(4), U(5)));
	else if (IS("zzSub") && argc >= 6) finish_word(zzSub(W(2), W(3), W(4), U(5)));
	else if (IS("zzAdd2") && argc >= 5) finish_word(zzAdd2(W(2), W(3), U(4)));
	else if (IS("zzSub2") && argc >= 5) finish_word(zzSub2(W(2), W(3), U(4)));
	else if (IS("zzAdd3") && argc >= 7) finish_word(zzAdd3(W(2), W(3), U(4), W(5), U(6)));
	else if (IS("zzAddW") && argc >= 6) finish_word(zzAddW(W(2), W(3), U(4), WU(5)));
	else if (IS("zzSubW") && argc >= 6) finish_word(zzSubW(W(2), W(3), U(4), WU(5)));
	else if (IS("zzNeg") && argc >= 5) zzNeg(W(2), W(3), U(4)), finish_void();
	else if (IS("zzMulW") && argc >= 6) finish_word(zzMulW(W(2), W(3), U(4), WU(5)));
	else if (IS("zzAddMulW") && argc >= 6) finish_word(zzAddMulW(W(2), W(3), U(4), WU(5)));
	else if (IS("zzSubMulW") && argc >= 6) finish_word(zzSubMulW(W(2), W(3), U(4), WU(5)));
	else if (IS("zzDivW") && argc >= 6) finish_word(zzDivW(W(2), W(3), U(4), WU(5)));
	else if (IS("zzAddMod") && argc >= 7) zzAddMod(W(2), W(3), W(4), W(5), U(6)), finish_void();
	else if (IS("zzSubMod") && argc >= 7) zzSubMod(W(2), W(3), W(4), W(5), U(6)), finish_void();
	else if (IS("zzAddWMod") && argc >= 7) zzAddWMod(W(2), W(3), WU(4), W(5), U(6)), finish_void();
	else if (IS("zzSubWMod") && argc >= 7) zzSubWMod(W(2), W(3), WU(4), W(5), U(6)), finish_void();
	else if (IS("zzNegMod") && argc >= 6) zzNegMod(W(2), W(3), W(4), U(5)), finish_void();
	else if (IS("zzDoubleMod") && argc >= 6) zzDoubleMod(W(2), W(3), W(4), U(5)), finish_void();
	else if (IS("zzHalfMod") && argc >= 6) zzHalfMod(W(2), W(3), W(4), U(5)), finish_void();
	else if (IS("ppMulW") && argc >= 6 && ppMulW_deep(U(4)) <= sizeof stack) finish_word(ppMulW(W(2), W(3), U(4), WU(5), stack));
	else if (IS("ppAddMulW") && argc >= 6 && ppAddMulW_deep(U(4)) <= sizeof stack) finish_word(ppAddMulW(W(2), W(3), U(4), WU(5), stack));
	else if ((IS("dstuPointCompress") || IS("dstuPointRecover")) && argc >= 5)
	{
		dstu_params prm;
		if (U(4) >= 10 || dstuParamsStd(&prm, dstu_names[U(4)]) != ERR_OK) { printf("bad-op"); return 1; }
		if (IS("dstuPointCompress")) finish_err(dstuPointCompress(P(2), &prm, P(3)));
		else finish_err(dstuPointRecover(P(2), &prm, P(3)));
	}
	else return 0;
	return 1;
}

static void handle(int argc, char** argv)
{
	mode6_f f6 = 0;
	mode5_f f5 = 0;
	fflush(stdout);	/* everything before this op is out: a sanitizer abort is attributed to the right line */
	if (argc < 2) { printf("bad-op"); return; }
	if (IS("keep")) { printf("%zu", keep_of(argv[1])); return; }
	if (IS("start") && argc >= 7) { A = hex_arg(argv[2], &An); do_start(argc, argv); hex_free(A, An); return; }
	if (IS("stepg") && argc >= 6) { A = hex_arg(argv[2], &An); do_stepg(argc, argv); hex_free(A, An); return; }
	if (IS("dstuBase"))
	{
		dstu_params prm;
		if (U(1) >= 10 || dstuParamsStd(&prm, dstu_names[U(1)]) != ERR_OK) { printf("bad-op"); return; }
		printf("%u ", (unsigned)O_OF_B(prm.p[0])); put_hex(prm.P, 2 * O_OF_B(prm.p[0]));
		return;
	}
	A = hex_arg(argv[1], &An);
	if (handle_math(argc, argv)) { hex_free(A, An); return; }
	if (IS("memMove") && argc >= 5) memMove(P(2), P(3), U(4)), finish_void();
	else if (IS("memJoin") && argc >= 7) memJoin(P(2), P(3), U(4), P(5), U(6)), finish_void();
	else if (IS("memXor") && argc >= 6) memXor(P(2), P(3), P(4), U(5)), finish_void();
	else if (IS("memXor2") && argc >= 5) memXor2(P(2), P(3), U(4)), finish_void();
	else if (IS("beltKeyExpand") && argc >= 5) beltKeyExpand(P(2), P(3), U(4)), finish_void();
	else if (IS("beltKeyExpand2") && argc >= 5) beltKeyExpand2((u32*)P(2), P(3), U(4)), finish_void();
	else if ((IS("beltCBCEncr") && (f6 = beltCBCEncr)) || (IS("beltCBCDecr") && (f6 = beltCBCDecr)) ||
		(IS("beltCFBEncr") && (f6 = beltCFBEncr)) || (IS("beltCFBDecr") && (f6 = beltCFBDecr)) ||
		(IS("beltCTR") && (f6 = beltCTR)) ||
		(IS("beltBDEEncr") && (f6 = beltBDEEncr)) || (IS("beltBDEDecr") && (f6 = beltBDEDecr)) ||
		(IS("beltSDEEncr") && (f6 = beltSDEEncr)) || (IS("beltSDEDecr") && (f6 = beltSDEDecr)))
	{
		if (argc < 8) { printf("bad-op"); return; }
		finish_err(f6(P(2), P(3), U(4), P(5), U(6), P(7)));
	}
	else if ((IS("beltECBEncr") && (f5 = beltECBEncr)) || (IS("beltECBDecr") && (f5 = beltECBDecr)))
	{
		if (argc < 7) { printf("bad-op"); return; }
		finish_err(f5(P(2), P(3), U(4), P(5), U(6)));
	}
	else if (IS("beltFMTEncr") && argc >= 9)
		finish_err(beltFMTEncr((u16*)P(2), (u32)U(3), (const u16*)P(4), U(5), P(6), U(7), P(8)));
	else if (IS("beltFMTDecr") && argc >= 9)
		finish_err(beltFMTDecr((u16*)P(2), (u32)U(3), (const u16*)P(4), U(5), P(6), U(7), P(8)));
	else if (IS("beltMAC") && argc >= 7) finish_err(beltMAC(P(2), P(3), U(4), P(5), U(6)));
	else if (IS("beltHMAC") && argc >= 7) finish_err(beltHMAC(P(2), P(3), U(4), P(5), U(6)));
	else if (IS("beltHash") && argc >= 5) finish_err(beltHash(P(2), P(3), U(4)));
	else if (IS("bashHash") && argc >= 6) finish_err(bashHash(P(3), U(2), P(4), U(5)));
	else if (IS("beltDWPWrap") && argc >= 11)
		finish_err(beltDWPWrap(P(2), P(3), P(4), U(5), P(6), U(7), P(8), U(9), P(10)));
	else if (IS("beltCHEWrap") && argc >= 11)
		finish_err(beltCHEWrap(P(2), P(3), P(4), U(5), P(6), U(7), P(8), U(9), P(10)));
	else if (IS("beltDWPUnwrap") && argc >= 11)
		finish_err(beltDWPUnwrap(P(2), P(3), U(4), P(5), U(6), P(7), P(8), U(9), P(10)));
	else if (IS("beltCHEUnwrap") && argc >= 11)
		finish_err(beltCHEUnwrap(P(2), P(3), U(4), P(5), U(6), P(7), P(8), U(9), P(10)));
	else if (IS("beltKWPWrap") && argc >= 8) finish_err(beltKWPWrap(P(2), P(3), U(4), P(5), P(6), U(7)));
	else if (IS("beltKWPUnwrap") && argc >= 8) finish_err(beltKWPUnwrap(P(2), P(3), U(4), P(5), P(6), U(7)));
	else if (IS("beltKRP") && argc >= 8) finish_err(beltKRP(P(2), U(3), P(4), U(5), P(6), P(7)));
	else if (IS("derEnc") && argc >= 6) finish_size(derEnc(P(2), (u32)U(3), P(4), U(5)));
	else if (IS("derTUINTEnc") && argc >= 6) finish_size(derTUINTEnc(P(2), (u32)U(3), P(4), U(5)));
	else if (IS("derTBITEnc") && argc >= 6) finish_size(derTBITEnc(P(2), (u32)U(3), P(4), U(5)));
	else if (IS("derTPSTREnc") && argc >= 5) finish_size(derTPSTREnc(P(2), (u32)U(3), (const char*)P(4)));
	else if (IS("derTUINTDec") && argc >= 7) finish_size(derTUINTDec(P(2), (size_t*)P(3), P(4), U(5), (u32)U(6)));
	else if (IS("derTBITDec") && argc >= 7) finish_size(derTBITDec(P(2), (size_t*)P(3), P(4), U(5), (u32)U(6)));
	else if (IS("derTOCTDec") && argc >= 7) finish_size(derTOCTDec(P(2), (size_t*)P(3), P(4), U(5), (u32)U(6)));
	else if (IS("derTPSTRDec") && argc >= 7) finish_size(derTPSTRDec((char*)P(2), (size_t*)P(3), P(4), U(5), (u32)U(6)));
	else if (IS("derTUINTDec2") && argc >= 7) finish_size(derTUINTDec2(P(2), P(3), U(4), (u32)U(5), U(6)));
	else if (IS("derTBITDec2") && argc >= 7) finish_size(derTBITDec2(P(2), P(3), U(4), (u32)U(5), U(6)));
	else if (IS("derTOCTDec2") && argc >= 7) finish_size(derTOCTDec2(P(2), P(3), U(4), (u32)U(5), U(6)));
	else printf("bad-op");
	hex_free(A, An);
}

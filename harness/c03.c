/* C03 harness: bash-f, bash hash, bash programmable automaton, brng CTR/HMAC, botp on the REAL library.
   One op per line; grammar in props/C03.py (same lines go to the Lean driver drv_c03).
   bash_prg.c and brng.c are #included to reach bash_prg_st (state dump) and the static brngBlockInc;
   bashF itself always comes from the library build (so the bash32 / SIMD configurations are exercised). */
#include <bee2/core/mem.h>
#include <bee2/core/str.h>
#include <bee2/crypto/bash.h>
#include <bee2/crypto/belt.h>
#include <bee2/crypto/brng.h>
#include <bee2/crypto/botp.h>
#include "crypto/bash/bash_prg.c"
#include "crypto/brng.c"
#include "crypto/botp.c"
static void handle(int argc, char** argv);
#include "common.h"
#include "c03_belt.h"

#define BAD() do { printf("bad-op"); return; } while (0)

static int hex_ok(const char* s)
{
	size_t n;
	if (strcmp(s, "-") == 0) return 1;
	n = strlen(s);
	if (n == 0 || n % 2) return 0;
	for (; *s; ++s) if (hv_(*s) < 0) return 0;
	return 1;
}

static int dec_ok(const char* s)
{
	if (!*s || strlen(s) > 19) return 0;
	for (; *s; ++s) if (*s < '0' || *s > '9') return 0;
	return 1;
}

static void op_bashf(int argc, char** argv)
{
	size_t n;
	octet* b;
	void* stack;
	if (argc != 2 || !hex_ok(argv[1])) BAD();
	b = hex_arg(argv[1], &n);
	if (n != 192) BAD();
	stack = malloc(bashF_deep() + 1);
	bashF(b, stack);
	free(stack);
	put_hex(b, 192);
	hex_free(b, n);
}

static void op_hash(int argc, char** argv)
{
	size_t l, n;
	int i;
	void* st;
	octet hash[64];
	if (argc < 2 || !dec_ok(argv[1])) BAD();
	l = (size_t)u_arg(argv[1]);
	if (l == 0 || l % 16 || l > 256) BAD();
	for (i = 2; i < argc; ++i) if (!hex_ok(argv[i])) BAD();
	st = malloc(bashHash_keep());
	bashHashStart(st, l);
	for (i = 2; i < argc; ++i)
	{
		octet* c = hex_arg(argv[i], &n);
		bashHashStepH(c, n, st);
		hex_free(c, n);
		bashHashStepG(hash, l / 4, st);
		if (i > 2) fputc(' ', stdout);
		put_hex(hash, l / 4);
	}
	free(st);
}

static int len_ok(size_t a, size_t k, size_t l)
{
	return a % 4 == 0 && a <= 60 && k % 4 == 0 && k <= 60 && (k == 0 || k >= l / 8);
}

/* automaton: all commands are validated first (so that nothing is printed for a bad line) */
static void op_prg(int argc, char** argv)
{
	size_t l, d, an, kn, n;
	octet *a, *k;
	bash_prg_st* st;
	int i, first = 1;
	if (argc < 5 || !dec_ok(argv[1]) || !dec_ok(argv[2]) || !hex_ok(argv[3]) || !hex_ok(argv[4])) BAD();
	l = (size_t)u_arg(argv[1]), d = (size_t)u_arg(argv[2]);
	if (!(l == 128 || l == 192 || l == 256) || !(d == 1 || d == 2)) BAD();
	/* syntactic validation of the commands */
	for (i = 5; i < argc; ++i)
	{
		char* t = argv[i];
		char c = t[0];
		if (c == 'T') { if (t[1]) BAD(); continue; }
		if (t[1] != ':') BAD();
		if (c == 'R')
		{
			char* p = strchr(t + 2, ':');
			if (!p || strchr(p + 1, ':')) BAD();
			*p = 0;
			if (!hex_ok(t + 2) || !hex_ok(p + 1)) BAD();
			*p = ':';
		}
		else if (c == 'S' || c == 's') { if (!dec_ok(t + 2) || u_arg(t + 2) > 100000) BAD(); }
		else if (strchr("AaEeDd", c)) { if (strchr(t + 2, ':') || !hex_ok(t + 2)) BAD(); }
		else BAD();
	}
	a = hex_arg(argv[3], &an), k = hex_arg(argv[4], &kn);
	if (!len_ok(an, kn, l)) BAD();
	st = (bash_prg_st*)malloc(bashPrg_keep());
	bashPrgStart(st, l, d, a, an, k, kn);
	hex_free(a, an), hex_free(k, kn);
	/* dry run for semantic validation is not possible without executing: execute, buffer output */
	{
		static char out[1 << 22];
		size_t o = 0;
		int bad = 0;
		for (i = 5; i < argc && !bad; ++i)
		{
			char* t = argv[i];
			char c = t[0];
			octet* x = 0;
			size_t j;
			if (c == 'T') { bashPrgRatchet(st); continue; }
			if (c == 'R')
			{
				char* p = strchr(t + 2, ':');
				octet *ra, *rk;
				size_t ran, rkn;
				*p = 0;
				ra = hex_arg(t + 2, &ran), rk = hex_arg(p + 1, &rkn);
				if (!len_ok(ran, rkn, st->l)) bad = 1;
				else bashPrgRestart(ra, ran, rk, rkn, st);
				hex_free(ra, ran), hex_free(rk, rkn);
				continue;
			}
			if (c == 'S' || c == 's')
			{
				n = (size_t)u_arg(t + 2);
				x = (octet*)malloc(n ? n : 1);
				memset(x, 0xA5, n);
				if (c == 'S') bashPrgSqueeze(x, n, st); else bashPrgSqueezeStep(x, n, st);
			}
			else
			{
				octet* h = hex_arg(t + 2, &n);
				x = (octet*)malloc(n ? n : 1);
				memcpy(x, h, n);
				hex_free(h, n);
				if (c == 'A') bashPrgAbsorb(x, n, st);
				else if (c == 'a') bashPrgAbsorbStep(x, n, st);
				else if (c == 'E') { if (!bashPrgIsKeymode(st)) bad = 1; else bashPrgEncr(x, n, st); }
				else if (c == 'e') bashPrgEncrStep(x, n, st);
				else if (c == 'D') { if (!bashPrgIsKeymode(st)) bad = 1; else bashPrgDecr(x, n, st); }
				else bashPrgDecrStep(x, n, st);
			}
			if (!bad && !strchr("Aa", c))
			{
				static const char dg[] = "0123456789abcdef";
				if (!first) out[o++] = ' ';
				first = 0;
				if (n == 0) out[o++] = '-';
				for (j = 0; j < n; ++j) out[o++] = dg[x[j] >> 4], out[o++] = dg[x[j] & 15];
			}
			free(x);
		}
		if (bad) { free(st); BAD(); }
		out[o] = 0;
		fputs(out, stdout);
		if (!first) fputc(' ', stdout);
		printf("%u %u ", (unsigned)st->pos, (unsigned)st->buf_len);
		put_hex(st->s, 192);
	}
	free(st);
}

static void op_ctrinc(int argc, char** argv)
{
	size_t n;
	octet* m;
	if (argc != 2 || !hex_ok(argv[1])) BAD();
	m = hex_arg(argv[1], &n);
	if (n != 64) BAD();
	brngBlockInc(m);
	put_hex(m, 64);
	hex_free(m, n);
}

static void op_ctr(int argc, char** argv)
{
	size_t kn, ivn, n;
	octet *k, *iv, out[32];
	void* st;
	int i;
	if (argc < 3) BAD();
	for (i = 1; i < argc; ++i) if (!hex_ok(argv[i])) BAD();
	k = hex_arg(argv[1], &kn), iv = hex_arg(argv[2], &ivn);
	if (kn != 32 || ivn != 32) BAD();
	st = malloc(brngCTR_keep());
	brngCTRStart(st, k, iv);
	hex_free(k, kn), hex_free(iv, ivn);
	for (i = 3; i < argc; ++i)
	{
		octet* b = hex_arg(argv[i], &n);
		brngCTRStepR(b, n, st);
		put_hex(b, n);
		fputc(' ', stdout);
		hex_free(b, n);
	}
	brngCTRStepG(out, st);
	put_hex(out, 32);
	free(st);
}

static void op_hmacgen(int argc, char** argv)
{
	size_t kn, ivn, n;
	octet *k, *iv;
	void* st;
	int i;
	if (argc < 3 || !hex_ok(argv[1]) || !hex_ok(argv[2])) BAD();
	for (i = 3; i < argc; ++i) if (!dec_ok(argv[i]) || u_arg(argv[i]) > 100000) BAD();
	k = hex_arg(argv[1], &kn), iv = hex_arg(argv[2], &ivn);
	st = malloc(brngHMAC_keep());
	brngHMACStart(st, k, kn, iv, ivn);
	hex_free(k, kn);	/* the key may go; the iv must stay (the state keeps a pointer when iv_len > 64) */
	for (i = 3; i < argc; ++i)
	{
		octet* b;
		n = (size_t)u_arg(argv[i]);
		b = (octet*)malloc(n ? n : 1);
		memset(b, 0x5A, n);
		brngHMACStepR(b, n, st);
		if (i > 3) fputc(' ', stdout);
		put_hex(b, n);
		free(b);
	}
	hex_free(iv, ivn);
	free(st);
}

static void op_hotp(int argc, char** argv)
{
	size_t dg, kn, cn, n, i;
	octet *k, *c, ctr[8];
	char* otp;
	void* st;
	if (argc != 5 || !dec_ok(argv[1]) || !hex_ok(argv[2]) || !hex_ok(argv[3]) || !dec_ok(argv[4])) BAD();
	dg = (size_t)u_arg(argv[1]), n = (size_t)u_arg(argv[4]);
	k = hex_arg(argv[2], &kn), c = hex_arg(argv[3], &cn);
	if (dg < 4 || dg > 9 || cn != 8 || n > 1000) BAD();
	st = malloc(botpHOTP_keep());
	otp = (char*)malloc(dg + 1);
	botpHOTPStart(st, dg, k, kn);
	botpHOTPStepS(st, c);
	hex_free(k, kn), hex_free(c, cn);
	for (i = 0; i < n; ++i)
	{
		botpHOTPStepR(otp, st);
		printf("%s ", otp);
	}
	botpHOTPStepG(ctr, st);
	put_hex(ctr, 8);
	free(otp), free(st);
}

static void op_hotpv(int argc, char** argv)
{
	size_t dg, kn, cn, on;
	octet *k, *c, *o, ctr[8];
	char* otp;
	void* st;
	bool_t r;
	if (argc != 5 || !dec_ok(argv[1]) || !hex_ok(argv[2]) || !hex_ok(argv[3]) || !hex_ok(argv[4])) BAD();
	dg = (size_t)u_arg(argv[1]);
	k = hex_arg(argv[2], &kn), c = hex_arg(argv[3], &cn), o = hex_arg(argv[4], &on);
	if (dg < 4 || dg > 9 || cn != 8 || memchr(o, 0, on)) BAD();
	otp = (char*)malloc(on + 1);
	memcpy(otp, o, on), otp[on] = 0;
	st = malloc(botpHOTP_keep());
	botpHOTPStart(st, dg, k, kn);
	botpHOTPStepS(st, c);
	r = botpHOTPStepV(otp, st);
	botpHOTPStepG(ctr, st);
	printf("%d ", r ? 1 : 0);
	put_hex(ctr, 8);
	hex_free(k, kn), hex_free(c, cn), hex_free(o, on), free(otp), free(st);
}

static void op_totp(int argc, char** argv)
{
	size_t dg, kn;
	octet* k;
	char otp[16];
	void* st;
	unsigned long long t;
	if (argc != 4 || !dec_ok(argv[1]) || !hex_ok(argv[2])) BAD();
	if (!*argv[3] || strlen(argv[3]) > 20 || strspn(argv[3], "0123456789") != strlen(argv[3])) BAD();
	errno = 0;
	t = strtoull(argv[3], 0, 10);
	if (errno) BAD();
	dg = (size_t)u_arg(argv[1]);
	if (dg < 4 || dg > 9) BAD();
	k = hex_arg(argv[2], &kn);
	st = malloc(botpTOTP_keep());
	botpTOTPStart(st, dg, k, kn);
	botpTOTPStepR(otp, (tm_time_t)t, st);
	printf("%s", otp);
	hex_free(k, kn), free(st);
}

static void op_ocra(int argc, char** argv)
{
	size_t sun, kn, qn, cn, pn, sn, n, i;
	octet *su, *k, *q, *c, *p, *s, ctr[8];
	char *suite, otp[16];
	botp_ocra_st* st;
	unsigned long long t;
	if (argc != 9) BAD();
	for (i = 1; i <= 6; ++i) if (!hex_ok(argv[i])) BAD();
	if (!*argv[7] || strlen(argv[7]) > 20 || strspn(argv[7], "0123456789") != strlen(argv[7])) BAD();
	errno = 0;
	t = strtoull(argv[7], 0, 10);
	if (errno || !dec_ok(argv[8])) BAD();
	n = (size_t)u_arg(argv[8]);
	su = hex_arg(argv[1], &sun), k = hex_arg(argv[2], &kn), q = hex_arg(argv[3], &qn);
	c = hex_arg(argv[4], &cn), p = hex_arg(argv[5], &pn), s = hex_arg(argv[6], &sn);
	if (memchr(su, 0, sun) || n > 1000) BAD();
	suite = (char*)malloc(sun + 1);
	memcpy(suite, su, sun), suite[sun] = 0;
	st = (botp_ocra_st*)malloc(botpOCRA_keep());
	if (!botpOCRAStart(st, suite, k, kn)) printf("bad-format");
	else if (qn < 4 || qn > 2 * st->q_max) printf("bad-params");
	else if ((st->ctr_len && cn != 8) || (st->p_len && pn != st->p_len) || (st->s_len && sn != st->s_len))
		printf("bad-op");
	else
	{
		botpOCRAStepS(st, c, p, s);
		for (i = 0; i < n; ++i)
		{
			botpOCRAStepR(otp, q, qn, (tm_time_t)t, st);
			printf("%s ", otp);
		}
		botpOCRAStepG(ctr, st);
		put_hex(ctr, 8);
	}
	hex_free(su, sun), hex_free(k, kn), hex_free(q, qn), hex_free(c, cn), hex_free(p, pn), hex_free(s, sn);
	free(suite), free(st);
}

/* ---- histories on ONE state: hotps / totps / ocras -------------------------------------------
   outputs are buffered so that a malformed command gives a single "bad-op" */
static char hbuf[1 << 16];
static size_t hlen;
static void hput(const char* s) { if (hlen) hbuf[hlen++] = ' '; strcpy(hbuf + hlen, s); hlen += strlen(s); }
static void hput_hex(const octet* p, size_t n)
{
	char t[2 * 64 + 1];
	size_t i;
	static const char d[] = "0123456789abcdef";
	for (i = 0; i < n; ++i) t[2 * i] = d[p[i] >> 4], t[2 * i + 1] = d[p[i] & 15];
	t[2 * n] = 0;
	hput(t);
}
/* split "a:b:c" in place; returns the number of fields (max 5) */
static int fields(char* t, char* f[5])
{
	int n = 0;
	f[n++] = t;
	for (; *t; ++t) if (*t == ':') { if (n == 5) return 99; *t = 0; f[n++] = t + 1; }
	return n;
}
static int t_arg(const char* s, unsigned long long* t)
{
	if (!*s || strlen(s) > 20 || strspn(s, "0123456789") != strlen(s)) return 0;
	errno = 0;
	*t = strtoull(s, 0, 10);
	return errno == 0;
}
/* hex field -> NUL-terminated string without inner NULs */
static char* str_arg(const char* h)
{
	size_t n;
	octet* o;
	char* r;
	if (!hex_ok(h)) return 0;
	o = hex_arg(h, &n);
	if (memchr(o, 0, n)) { hex_free(o, n); return 0; }
	r = (char*)malloc(n + 1);
	memcpy(r, o, n), r[n] = 0;
	hex_free(o, n);
	return r;
}

static void op_hotps(int argc, char** argv)
{
	size_t dg, kn, n;
	octet *k, ctr[8];
	botp_hotp_st *st, *cp;
	char otp[16], otp2[16];
	int i, bad = 0;
	if (argc < 3 || !dec_ok(argv[1]) || !hex_ok(argv[2])) BAD();
	dg = (size_t)u_arg(argv[1]);
	if (dg < 4 || dg > 9) BAD();
	k = hex_arg(argv[2], &kn);
	st = (botp_hotp_st*)malloc(botpHOTP_keep());
	cp = (botp_hotp_st*)malloc(botpHOTP_keep());
	botpHOTPStart(st, dg, k, kn);
	memset(st->ctr, 0, 8);
	hex_free(k, kn);
	hlen = 0;
	for (i = 3; i < argc && !bad; ++i)
	{
		char* f[5];
		int nf = fields(argv[i], f);
		char c = f[0][0];
		if (f[0][1]) { bad = 1; break; }
		if (c == 'S' && nf == 2 && hex_ok(f[1]))
		{
			octet* x = hex_arg(f[1], &n);
			if (n != 8) bad = 1; else botpHOTPStepS(st, x);
			hex_free(x, n);
		}
		else if (c == 'R' && nf == 1) botpHOTPStepR(otp, st), hput(otp);
		else if (c == 'V' && nf == 2)
		{
			char* o = str_arg(f[1]);
			if (!o) bad = 1; else hput(botpHOTPStepV(o, st) ? "1" : "0"), free(o);
		}
		else if ((c == 'W' || c == 'N') && nf == 1)
		{
			memcpy(cp, st, botpHOTP_keep());
			botpHOTPStepR(otp2, cp);
			if (c == 'N') botpHOTPStepR(otp2, cp);
			hput(botpHOTPStepV(otp2, st) ? "1" : "0");
		}
		else if (c == 'G' && nf == 1) botpHOTPStepG(ctr, st), hput_hex(ctr, 8);
		else bad = 1;
	}
	if (bad) printf("bad-op");
	else botpHOTPStepG(ctr, st), hput_hex(ctr, 8), fputs(hbuf, stdout);
	free(st), free(cp);
}

static void op_totps(int argc, char** argv)
{
	size_t dg, kn;
	octet* k;
	void* st;
	char otp[16];
	unsigned long long t;
	int i, bad = 0;
	if (argc < 3 || !dec_ok(argv[1]) || !hex_ok(argv[2])) BAD();
	dg = (size_t)u_arg(argv[1]);
	if (dg < 4 || dg > 9) BAD();
	k = hex_arg(argv[2], &kn);
	st = malloc(botpTOTP_keep());
	botpTOTPStart(st, dg, k, kn);
	hex_free(k, kn);
	hlen = 0;
	hbuf[0] = 0;
	for (i = 3; i < argc && !bad; ++i)
	{
		char* f[5];
		int nf = fields(argv[i], f);
		char c = f[0][0];
		if (f[0][1] || nf < 2 || !t_arg(f[1], &t)) { bad = 1; break; }
		if (c == 'R' && nf == 2) botpTOTPStepR(otp, (tm_time_t)t, st), hput(otp);
		else if (c == 'V' && nf == 3)
		{
			char* o = str_arg(f[2]);
			if (!o) bad = 1; else hput(botpTOTPStepV(o, (tm_time_t)t, st) ? "1" : "0"), free(o);
		}
		else if (c == 'W' && nf == 2)
		{
			botpTOTPStepR(otp, (tm_time_t)t, st);
			hput(botpTOTPStepV(otp, (tm_time_t)t, st) ? "1" : "0");
		}
		else bad = 1;
	}
	if (bad) printf("bad-op"); else fputs(hbuf, stdout);
	free(st);
}

static void op_ocras(int argc, char** argv)
{
	size_t kn, qn, n1, n2, n3;
	octet *k, ctr[8];
	char *suite, otp[16];
	botp_ocra_st *st, *cp;
	unsigned long long t;
	int i, bad = 0;
	if (argc < 3 || !hex_ok(argv[2])) BAD();
	suite = str_arg(argv[1]);
	if (!suite) BAD();
	k = hex_arg(argv[2], &kn);
	st = (botp_ocra_st*)malloc(botpOCRA_keep());
	cp = (botp_ocra_st*)malloc(botpOCRA_keep());
	if (!botpOCRAStart(st, suite, k, kn)) { printf("bad-format"); goto end; }
	hlen = 0;
	for (i = 3; i < argc && !bad; ++i)
	{
		char* f[5];
		int nf = fields(argv[i], f);
		char c = f[0][0];
		if (f[0][1]) { bad = 1; break; }
		if (c == 'G' && nf == 1) { botpOCRAStepG(ctr, st), hput_hex(ctr, 8); continue; }
		if (c == 'S' && nf == 4 && hex_ok(f[1]) && hex_ok(f[2]) && hex_ok(f[3]))
		{
			octet *x = hex_arg(f[1], &n1), *p = hex_arg(f[2], &n2), *s = hex_arg(f[3], &n3);
			if ((st->ctr_len && n1 != 8) || (st->p_len && n2 != st->p_len) || (st->s_len && n3 != st->s_len)) bad = 1;
			else botpOCRAStepS(st, x, p, s);
			hex_free(x, n1), hex_free(p, n2), hex_free(s, n3);
			continue;
		}
		if (!strchr("RVWN", c) || nf < 3 || !hex_ok(f[1]) || !t_arg(f[2], &t)) { bad = 1; break; }
		{
			octet* q = hex_arg(f[1], &qn);
			if (qn < 4 || qn > 2 * st->q_max) bad = 1;
			else if (c == 'R' && nf == 3) botpOCRAStepR(otp, q, qn, (tm_time_t)t, st), hput(otp);
			else if (c == 'V' && nf == 4)
			{
				char* o = str_arg(f[3]);
				if (!o) bad = 1; else hput(botpOCRAStepV(o, q, qn, (tm_time_t)t, st) ? "1" : "0"), free(o);
			}
			else if ((c == 'W' || c == 'N') && nf == 3)
			{
				memcpy(cp, st, botpOCRA_keep());
				botpOCRAStepR(otp, q, qn, (tm_time_t)t, cp);
				if (c == 'N') botpOCRAStepR(otp, q, qn, (tm_time_t)t, cp);
				hput(botpOCRAStepV(otp, q, qn, (tm_time_t)t, st) ? "1" : "0");
			}
			else bad = 1;
			hex_free(q, qn);
		}
	}
	if (bad) printf("bad-op");
	else botpOCRAStepG(ctr, st), hput_hex(ctr, 8), fputs(hbuf, stdout);
end:
	hex_free(k, kn), free(suite), free(st), free(cp);
}

static void op_ctrnext(int argc, char** argv)
{
	size_t n;
	octet* c;
	if (argc != 2 || !hex_ok(argv[1])) BAD();
	c = hex_arg(argv[1], &n);
	if (n != 8) BAD();
	botpCtrNext(c);
	put_hex(c, 8);
	hex_free(c, n);
}

static void op_dt(int argc, char** argv)
{
	size_t dg, n;
	octet* m;
	char* otp;
	if (argc != 3 || !dec_ok(argv[1]) || !hex_ok(argv[2])) BAD();
	dg = (size_t)u_arg(argv[1]);
	m = hex_arg(argv[2], &n);
	if (dg < 4 || dg > 9 || n < 20) BAD();
	otp = (char*)malloc(dg + 1);
	botpDT(otp, dg, m, n);
	printf("%s", otp);
	free(otp), hex_free(m, n);
}

static void handle(int argc, char** argv)
{
	if (argc < 1) { printf("bad-op"); return; }
	if (handle_belt(argc, argv)) return;
	/* bashf32 = the same library call; in cfg bash32 it runs bash_f32.c and is compared with the f32 MODEL */
	if (!strcmp(argv[0], "bashf") || !strcmp(argv[0], "bashf32")) op_bashf(argc, argv);
	else if (!strcmp(argv[0], "hash")) op_hash(argc, argv);
	else if (!strcmp(argv[0], "prg")) op_prg(argc, argv);
	else if (!strcmp(argv[0], "ctrinc")) op_ctrinc(argc, argv);
	else if (!strcmp(argv[0], "ctr")) op_ctr(argc, argv);
	else if (!strcmp(argv[0], "hmacgen")) op_hmacgen(argc, argv);
	else if (!strcmp(argv[0], "hotp")) op_hotp(argc, argv);
	else if (!strcmp(argv[0], "hotpv")) op_hotpv(argc, argv);
	else if (!strcmp(argv[0], "totp")) op_totp(argc, argv);
	else if (!strcmp(argv[0], "ocra")) op_ocra(argc, argv);
	else if (!strcmp(argv[0], "hotps")) op_hotps(argc, argv);
	else if (!strcmp(argv[0], "totps")) op_totps(argc, argv);
	else if (!strcmp(argv[0], "ocras")) op_ocras(argc, argv);
	else if (!strcmp(argv[0], "ctrnext")) op_ctrnext(argc, argv);
	else if (!strcmp(argv[0], "dt")) op_dt(argc, argv);
	else printf("bad-op");
}

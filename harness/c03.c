/* C03 harness: bash-f, bash hash, bash programmable automaton, brng, botp on the real library.
   One op per line; see props/C03.py for the op grammar. */
#include <bee2/core/mem.h>
#include <bee2/crypto/bash.h>
#include <bee2/crypto/belt.h>
#include <bee2/crypto/brng.h>
#include <bee2/crypto/botp.h>
static void handle(int argc, char** argv);
#include "common.h"

static void op_bashf(int argc, char** argv)
{
	size_t n;
	octet* b;
	if (argc != 2) { printf("bad-op"); return; }
	b = hex_arg(argv[1], &n);
	if (n != 192) { printf("bad-op"); return; }
	{
		void* stack = malloc(bashF_deep() + 1);
		bashF(b, stack);
		free(stack);
	}
	put_hex(b, 192);
	hex_free(b, n);
}

static void handle(int argc, char** argv)
{
	if (argc < 1) { printf("bad-op"); return; }
	if (!strcmp(argv[0], "bashf")) op_bashf(argc, argv);
	else printf("bad-op");
}

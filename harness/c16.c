/* C16 harness: bign96, g12s (GOST R 34.10-2012), dstu (DSTU 4145-2002) and pfok on the real library,
   all standard parameter sets.

   Octet strings are lower-case hex ("-" empty); "N" is the NULL pointer where the API admits one.
   Every input buffer is an exact-size allocation (ASan traps over-reads); every output buffer is an
   exact-size allocation pre-filled with 0xA5 (so octets the library does not write are visible).
   `tape` is the caller's generator: every request is served from the tape, zero octets once it is
   exhausted (dstu.*: a request beyond the end of the tape aborts the op, which prints "exhausted": the
   library's loops around the generator are unbounded); <used> = octets requested.  Outputs are "-" unless err == 0.  Buffers of a wrong length
   give "bad-op" (same rule in the Lean driver).

     b96.params                         -> l p a b q yG                   (24 octets each)
     b96.kgen tape                      -> err privkey||pubkey used
     b96.kval priv pub                  -> err
     b96.pval pub                       -> err
     b96.pcalc priv                     -> err pubkey
     b96.sign oid hash priv tape        -> err sig used
     b96.sign2 oid hash priv t|N        -> err sig
     b96.vfy oid hash sig pub           -> err
     g12.params i                       -> l n p a b q xP yP              (i = 0..7; no / l/8 octets)
     g12.kgen i tape                    -> err privkey||pubkey used
     g12.sign i hash priv tape          -> err sig used
     g12.vfy i hash sig pub             -> err
     dstu.params i                      -> m p1 p2 p3 A c B n             (i = 0..9; O_OF_B(m) octets)
     dstu.pgen i tape                   -> err point used
     dstu.pval i point                  -> err
     dstu.comp i point                  -> err xpoint
     dstu.rec i xpoint                  -> err point
     dstu.kgen i P tape                 -> err privkey||pubkey used       (P = base point, 2*O_OF_B(m) octets)
     dstu.sign i P ld hash priv tape    -> err sig used
     dstu.vfy i P ld hash sig pub       -> err
     pfok.params i                      -> l r n p g                      (i = 0..3: test, bdh3, bdh6, bdh10)
     pfok.kgen i tape                   -> err privkey||pubkey used
     pfok.pval i pub                    -> err
     pfok.pcalc i priv                  -> err pubkey
     pfok.dh i priv pub                 -> err sharekey
     pfok.mti i priv priv1 pub pub1     -> err sharekey
     hash data                          -> belt-hash(data)                (helper of the search oracle)
*/
#include <bee2/core/err.h>
#include <bee2/core/mem.h>
#include <bee2/core/util.h>
#include <bee2/crypto/belt.h>
#include <bee2/crypto/bign.h>
#include <bee2/crypto/bign96.h>
#include <bee2/crypto/g12s.h>
#include <bee2/crypto/dstu.h>
#include <bee2/crypto/pfok.h>
static void handle(int argc, char** argv);
#include <setjmp.h>
#include "common.h"

static const char* g12_names[8] = {
	"1.2.643.2.2.35.0", "1.2.643.2.2.35.1", "1.2.643.2.2.35.2", "1.2.643.2.2.35.3",
	"1.2.643.2.9.1.8.1", "1.2.643.7.1.2.1.2.0", "1.2.643.7.1.2.1.2.1", "1.2.643.7.1.2.1.2.2" };
static const char* dstu_names[10] = {
	"1.2.804.2.1.1.1.1.3.1.1.1.2.0", "1.2.804.2.1.1.1.1.3.1.1.1.2.1", "1.2.804.2.1.1.1.1.3.1.1.1.2.2",
	"1.2.804.2.1.1.1.1.3.1.1.1.2.3", "1.2.804.2.1.1.1.1.3.1.1.1.2.4", "1.2.804.2.1.1.1.1.3.1.1.1.2.5",
	"1.2.804.2.1.1.1.1.3.1.1.1.2.6", "1.2.804.2.1.1.1.1.3.1.1.1.2.7", "1.2.804.2.1.1.1.1.3.1.1.1.2.8",
	"1.2.804.2.1.1.1.1.3.1.1.1.2.9" };
static const char* pfok_names[4] = {
	"test", "1.2.112.0.2.0.1176.2.3.3.2", "1.2.112.0.2.0.1176.2.3.6.2", "1.2.112.0.2.0.1176.2.3.10.2" };

typedef struct { const octet* p; size_t len; size_t used; int strict; } tape_t;
static jmp_buf tape_jb;

/* strict tapes (dstu: the library loops `while (1)` until the generator delivers a usable value):
   a request that the tape cannot serve completely aborts the operation, the op prints "exhausted" */
static void tape_gen(void* buf, size_t count, void* state)
{
	tape_t* t = (tape_t*)state;
	size_t k = t->len < count ? t->len : count;
	if (t->strict && t->len < count)
		longjmp(tape_jb, 1);
	memcpy(buf, t->p, k);
	memset((octet*)buf + k, 0, count - k);
	t->p += k, t->len -= k, t->used += count;
}

#define IS(s) (strcmp(argv[0], s) == 0)
#define NARG 8
static octet* B[NARG];
static size_t L[NARG];
static int isnull[NARG];
static int nload;

static void load(const char* s, int nullable)
{
	int i = nload++;
	isnull[i] = 0;
	if (nullable && strcmp(s, "N") == 0) { isnull[i] = 1; B[i] = 0; L[i] = 0; return; }
	B[i] = hex_arg(s, &L[i]);
}
static void unload_all(void)
{
	int i;
	for (i = 0; i < nload; ++i)
		if (!isnull[i] && B[i]) hex_free(B[i], L[i]), B[i] = 0;
	nload = 0;
}

static octet* outbuf(size_t n)
{
	octet* p = (octet*)malloc(n ? n : 1);
	memset(p, 0xA5, n ? n : 1);
	return p;
}

static void out_err(err_t e, const void* buf, size_t n)
{
	printf("%u ", (unsigned)e);
	if (e == ERR_OK) put_hex(buf, n); else fputc('-', stdout);
}

static int idx(const char* s, int n)
{
	if (strlen(s) != 1 || s[0] < '0' || s[0] >= '0' + n) return -1;
	return s[0] - '0';
}

#define BAD { printf("bad-op"); goto done; }

static void h_b96(int argc, char** argv)
{
	bign_params prm;
	err_t e;
	octet* out = 0;
	tape_t t;
	if (bign96ParamsStd(&prm, "1.2.112.0.2.0.34.101.45.3.0") != ERR_OK) { printf("bad-op"); return; }
	if (IS("b96.params") && argc == 1)
	{
		printf("%u ", (unsigned)prm.l);
		put_hex(prm.p, 24); fputc(' ', stdout); put_hex(prm.a, 24); fputc(' ', stdout);
		put_hex(prm.b, 24); fputc(' ', stdout); put_hex(prm.q, 24); fputc(' ', stdout);
		put_hex(prm.yG, 24);
	}
	else if (IS("b96.kgen") && argc == 2)
	{
		load(argv[1], 0);
		out = outbuf(72);
		t.p = B[0], t.len = L[0], t.used = 0, t.strict = 0;
		e = bign96KeypairGen(out, out + 24, &prm, tape_gen, &t);
		out_err(e, out, 72);
		printf(" %zu", t.used);
	}
	else if (IS("b96.kval") && argc == 3)
	{
		load(argv[1], 0); load(argv[2], 0);
		if (L[0] != 24 || L[1] != 48) BAD
		printf("%u", (unsigned)bign96KeypairVal(&prm, B[0], B[1]));
	}
	else if (IS("b96.pval") && argc == 2)
	{
		load(argv[1], 0);
		if (L[0] != 48) BAD
		printf("%u", (unsigned)bign96PubkeyVal(&prm, B[0]));
	}
	else if (IS("b96.pcalc") && argc == 2)
	{
		load(argv[1], 0);
		if (L[0] != 24) BAD
		out = outbuf(48);
		e = bign96PubkeyCalc(out, &prm, B[0]);
		out_err(e, out, 48);
	}
	else if (IS("b96.sign") && argc == 5)
	{
		load(argv[1], 0); load(argv[2], 0); load(argv[3], 0); load(argv[4], 0);
		if (L[1] != 24 || L[2] != 24) BAD
		out = outbuf(34);
		t.p = B[3], t.len = L[3], t.used = 0, t.strict = 0;
		e = bign96Sign(out, &prm, B[0], L[0], B[1], B[2], tape_gen, &t);
		out_err(e, out, 34);
		printf(" %zu", t.used);
	}
	else if (IS("b96.sign2") && argc == 5)
	{
		load(argv[1], 0); load(argv[2], 0); load(argv[3], 0); load(argv[4], 1);
		if (L[1] != 24 || L[2] != 24) BAD
		out = outbuf(34);
		e = bign96Sign2(out, &prm, B[0], L[0], B[1], B[2], B[3], L[3]);
		out_err(e, out, 34);
	}
	else if (IS("b96.vfy") && argc == 5)
	{
		load(argv[1], 0); load(argv[2], 0); load(argv[3], 0); load(argv[4], 0);
		if (L[1] != 24 || L[2] != 34 || L[3] != 48) BAD
		printf("%u", (unsigned)bign96Verify(&prm, B[0], L[0], B[1], B[2], B[3]));
	}
	else
		printf("bad-op");
done:
	if (out) free(out);
	unload_all();
}

static void h_g12(int argc, char** argv)
{
	g12s_params prm;
	err_t e;
	octet* out = 0;
	tape_t t;
	size_t no, mo;
	int i;
	if (argc < 2 || (i = idx(argv[1], 8)) < 0 || g12sParamsStd(&prm, g12_names[i]) != ERR_OK) { printf("bad-op"); return; }
	mo = prm.l / 8;
	no = memNonZeroSize(prm.p, sizeof(prm.p) * prm.l / 512);
	if (IS("g12.params") && argc == 2)
	{
		printf("%u %u ", (unsigned)prm.l, (unsigned)prm.n);
		put_hex(prm.p, no); fputc(' ', stdout); put_hex(prm.a, no); fputc(' ', stdout);
		put_hex(prm.b, no); fputc(' ', stdout); put_hex(prm.q, mo); fputc(' ', stdout);
		put_hex(prm.xP, no); fputc(' ', stdout); put_hex(prm.yP, no);
	}
	else if (IS("g12.kgen") && argc == 3)
	{
		load(argv[2], 0);
		out = outbuf(mo + 2 * no);
		t.p = B[0], t.len = L[0], t.used = 0, t.strict = 0;
		e = g12sKeypairGen(out, out + mo, &prm, tape_gen, &t);
		out_err(e, out, mo + 2 * no);
		printf(" %zu", t.used);
	}
	else if (IS("g12.sign") && argc == 5)
	{
		load(argv[2], 0); load(argv[3], 0); load(argv[4], 0);
		if (L[0] != mo || L[1] != mo) BAD
		out = outbuf(2 * mo);
		t.p = B[2], t.len = L[2], t.used = 0, t.strict = 0;
		e = g12sSign(out, &prm, B[0], B[1], tape_gen, &t);
		out_err(e, out, 2 * mo);
		printf(" %zu", t.used);
	}
	else if (IS("g12.vfy") && argc == 5)
	{
		load(argv[2], 0); load(argv[3], 0); load(argv[4], 0);
		if (L[0] != mo || L[1] != 2 * mo || L[2] != 2 * no) BAD
		printf("%u", (unsigned)g12sVerify(&prm, B[0], B[1], B[2]));
	}
	else
		printf("bad-op");
done:
	if (out) free(out);
	unload_all();
}

static void h_dstu(int argc, char** argv)
{
	dstu_params prm;
	err_t e;
	octet* out = 0;
	tape_t t;
	size_t no, oo, ld;
	int i;
	if (argc < 2 || (i = idx(argv[1], 10)) < 0 || dstuParamsStd(&prm, dstu_names[i]) != ERR_OK) { printf("bad-op"); return; }
	no = O_OF_B(prm.p[0]);
	oo = memNonZeroSize(prm.n, no);
	if (IS("dstu.params") && argc == 2)
	{
		printf("%u %u %u %u %u %u ", (unsigned)prm.p[0], (unsigned)prm.p[1], (unsigned)prm.p[2], (unsigned)prm.p[3],
			(unsigned)prm.A, (unsigned)prm.c);
		put_hex(prm.B, no); fputc(' ', stdout); put_hex(prm.n, no);
	}
	else if (IS("dstu.pgen") && argc == 3)
	{
		load(argv[2], 0);
		out = outbuf(2 * no);
		t.p = B[0], t.len = L[0], t.used = 0, t.strict = 0;
		t.strict = 1;
		if (setjmp(tape_jb)) { printf("exhausted"); goto done; }
		e = dstuPointGen(out, &prm, tape_gen, &t);
		out_err(e, out, 2 * no);
		printf(" %zu", t.used);
	}
	else if (IS("dstu.pval") && argc == 3)
	{
		load(argv[2], 0);
		if (L[0] != 2 * no) BAD
		printf("%u", (unsigned)dstuPointVal(&prm, B[0]));
	}
	else if (IS("dstu.comp") && argc == 3)
	{
		load(argv[2], 0);
		if (L[0] != 2 * no) BAD
		out = outbuf(no);
		e = dstuPointCompress(out, &prm, B[0]);
		out_err(e, out, no);
	}
	else if (IS("dstu.rec") && argc == 3)
	{
		load(argv[2], 0);
		if (L[0] != no) BAD
		out = outbuf(2 * no);
		e = dstuPointRecover(out, &prm, B[0]);
		out_err(e, out, 2 * no);
	}
	else if (IS("dstu.kgen") && argc == 4)
	{
		load(argv[2], 0); load(argv[3], 0);
		if (L[0] != 2 * no) BAD
		memcpy(prm.P, B[0], 2 * no);
		out = outbuf(oo + 2 * no);
		t.p = B[1], t.len = L[1], t.used = 0, t.strict = 0;
		t.strict = 1;
		if (setjmp(tape_jb)) { printf("exhausted"); goto done; }
		e = dstuKeypairGen(out, out + oo, &prm, tape_gen, &t);
		out_err(e, out, oo + 2 * no);
		printf(" %zu", t.used);
	}
	else if (IS("dstu.sign") && argc == 7)
	{
		load(argv[2], 0); load(argv[4], 0); load(argv[5], 0); load(argv[6], 0);
		ld = (size_t)u_arg(argv[3]);
		if (L[0] != 2 * no || L[2] != oo || ld > (1u << 16)) BAD
		memcpy(prm.P, B[0], 2 * no);
		out = outbuf(O_OF_B(ld));
		t.p = B[3], t.len = L[3], t.used = 0, t.strict = 0;
		t.strict = 1;
		if (setjmp(tape_jb)) { printf("exhausted"); goto done; }
		e = dstuSign(out, &prm, ld, B[1], L[1], B[2], tape_gen, &t);
		out_err(e, out, O_OF_B(ld));
		printf(" %zu", t.used);
	}
	else if (IS("dstu.vfy") && argc == 7)
	{
		load(argv[2], 0); load(argv[4], 0); load(argv[5], 0); load(argv[6], 0);
		ld = (size_t)u_arg(argv[3]);
		if (L[0] != 2 * no || L[2] != O_OF_B(ld) || L[3] != 2 * no || ld > (1u << 16)) BAD
		memcpy(prm.P, B[0], 2 * no);
		printf("%u", (unsigned)dstuVerify(&prm, ld, B[1], L[1], B[2], B[3]));
	}
	else
		printf("bad-op");
done:
	if (out) free(out);
	unload_all();
}

static void h_pfok(int argc, char** argv)
{
	pfok_params prm;
	err_t e;
	octet* out = 0;
	tape_t t;
	size_t no, mo, ko;
	int i;
	if (argc < 2 || (i = idx(argv[1], 4)) < 0 || pfokParamsStd(&prm, 0, pfok_names[i]) != ERR_OK) { printf("bad-op"); return; }
	no = O_OF_B(prm.l), mo = O_OF_B(prm.r), ko = O_OF_B(prm.n);
	if (IS("pfok.params") && argc == 2)
	{
		printf("%u %u %u ", (unsigned)prm.l, (unsigned)prm.r, (unsigned)prm.n);
		put_hex(prm.p, no); fputc(' ', stdout); put_hex(prm.g, no);
	}
	else if (IS("pfok.kgen") && argc == 3)
	{
		load(argv[2], 0);
		out = outbuf(mo + no);
		t.p = B[0], t.len = L[0], t.used = 0, t.strict = 0;
		e = pfokKeypairGen(out, out + mo, &prm, tape_gen, &t);
		out_err(e, out, mo + no);
		printf(" %zu", t.used);
	}
	else if (IS("pfok.pval") && argc == 3)
	{
		load(argv[2], 0);
		if (L[0] != no) BAD
		printf("%u", (unsigned)pfokPubkeyVal(&prm, B[0]));
	}
	else if (IS("pfok.pcalc") && argc == 3)
	{
		load(argv[2], 0);
		if (L[0] != mo) BAD
		out = outbuf(no);
		e = pfokPubkeyCalc(out, &prm, B[0]);
		out_err(e, out, no);
	}
	else if (IS("pfok.dh") && argc == 4)
	{
		load(argv[2], 0); load(argv[3], 0);
		if (L[0] != mo || L[1] != no) BAD
		out = outbuf(ko);
		e = pfokDH(out, &prm, B[0], B[1]);
		out_err(e, out, ko);
	}
	else if (IS("pfok.mti") && argc == 6)
	{
		load(argv[2], 0); load(argv[3], 0); load(argv[4], 0); load(argv[5], 0);
		if (L[0] != mo || L[1] != mo || L[2] != no || L[3] != no) BAD
		out = outbuf(ko);
		e = pfokMTI(out, &prm, B[0], B[1], B[2], B[3]);
		out_err(e, out, ko);
	}
	else
		printf("bad-op");
done:
	if (out) free(out);
	unload_all();
}

static void handle(int argc, char** argv)
{
	if (argc < 1) { printf("bad-op"); return; }
	if (IS("hash") && argc == 2)
	{
		octet h[32];
		load(argv[1], 0);
		beltHash(h, B[0], L[0]);
		put_hex(h, 32);
		unload_all();
	}
	else if (strncmp(argv[0], "b96.", 4) == 0) h_b96(argc, argv);
	else if (strncmp(argv[0], "g12.", 4) == 0) h_g12(argc, argv);
	else if (strncmp(argv[0], "dstu.", 5) == 0) h_dstu(argc, argv);
	else if (strncmp(argv[0], "pfok.", 5) == 0) h_pfok(argc, argv);
	else printf("bad-op");
}

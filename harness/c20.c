/* C20 harness: `pwd <pin> <auth> <event>` -> `<ret> <pin'> <auth'>` on the real
   btokPwdTransition (raw bit-field values, also outside the enums). */
#include <bee2/crypto/btok.h>
static void handle(int argc, char** argv);
#include "common.h"

static void handle(int argc, char** argv)
{
	btok_pwd_state st;
	bool_t r;
	if (argc != 4 || strcmp(argv[0], "pwd")) { printf("bad-op"); return; }
	memset(&st, 0, sizeof st);
	st.pin = (btok_pin_state)u_arg(argv[1]);
	st.auth = (btok_auth_state)u_arg(argv[2]);
	r = btokPwdTransition(&st, (btok_pwd_event)u_arg(argv[3]));
	printf("%d %u %u", r ? 1 : 0, (unsigned)st.pin, (unsigned)st.auth);
}

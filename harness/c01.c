/* C01 harness: belt (STB 34.101.31) on the real library, line protocol of docs/C01.protocol.md.
   Statics / private structs / macros are reached by including the library .c files; the
   definitions of this TU then shadow the archive members belt_block/wbl/fmt/cfb.o. */
/* The library is built with -fno-strict-aliasing (CMakeLists.txt) and relies on it (octet[] accessed
   as word[]); the harness build line does not pass it, so set it for the code included below:
   without it gcc -O2 miscompiles beltWBLStepEOpt/DOpt in this TU (64-bit words). */
#pragma GCC optimize ("no-strict-aliasing")
#include "crypto/belt/belt_block.c"	/* H5..H29, G5/G13/G21 */
#include "crypto/belt/belt_wbl.c"	/* beltWBLStep{E,D}{Base,Opt} */
#include "crypto/belt/belt_fmt.c"	/* beltFMTCalcB, beltStr2Bin, beltBin2Str*, belt32BlockEncr */
#include "crypto/belt/belt_cfb.c"	/* belt_cfb_st */
#include "crypto/belt/belt_lcl.h"	/* belt_ctr_st, belt_wbl_st, beltPolyMul, ... */
#undef E
#undef D
#undef R
static void handle(int argc, char** argv);
#include "common.h"

/* ---------------------------------------------------------------- memory */
/* everything allocated while one op is handled is released at its end */
static void* pool_[8 * MAXTOK];
static int npool_;

static void* keep_(void* base)
{
	if (!base || npool_ >= (int)(sizeof pool_ / sizeof pool_[0])) { fprintf(stderr, "pool\n"); exit(3); }
	return pool_[npool_++] = base;
}
/* buffer of EXACTLY n octets filled with `fill`; n == 0 -> one-past an `al`-octet allocation */
static octet* buf_n(size_t n, int fill, size_t al)
{
	octet* p = (octet*)keep_(malloc(n ? n : al));
	memset(p, fill, n ? n : al);
	return n ? p : p + al;
}
static octet* dest_n(size_t n) { return buf_n(n, 0xA5, 1); }
static octet* hx(const char* s, size_t* len)
{
	octet* p = hex_arg(s, len);
	keep_(*len ? p : p - 1);
	return p;
}
static void pool_free(void) { while (npool_) free(pool_[--npool_]); }

/* ---------------------------------------------------------------- output */
static int ntok_;
static void sep(void) { if (ntok_++) fputc(' ', stdout); }
static void t_hex(const void* p, size_t n) { sep(); put_hex(p, n); }
static void t_u(unsigned long long v) { sep(); printf("%llu", v); }
static void t_s(const char* s) { sep(); fputs(s, stdout); }
static void t_err(err_t e)
{
	sep();
	if (e == ERR_OK) fputs("ok", stdout);
	else if (e == ERR_BAD_INPUT) fputs("bad_input", stdout);
	else if (e == ERR_BAD_MAC) fputs("bad_mac", stdout);
	else if (e == ERR_BAD_KEYTOKEN) fputs("bad_keytoken", stdout);
	else if (e == ERR_NOT_IMPLEMENTED) fputs("not_implemented", stdout);
	else if (e == ERR_OUTOFMEMORY) fputs("outofmemory", stdout);
	else printf("err%u", (unsigned)e);
}
static void t_u32s(const u32* w, size_t nw)	/* u32To */
{
	octet* b = buf_n(4 * nw, 0, 1);
	u32To(b, 4 * nw, w);
	t_hex(b, 4 * nw);
}
static void t_str(const u16* s, size_t count)	/* each u16 little-endian */
{
	octet* b = buf_n(2 * count, 0, 1);
	size_t i;
	for (i = 0; i < count; ++i) b[2 * i] = (octet)(s[i] & 255), b[2 * i + 1] = (octet)(s[i] >> 8);
	t_hex(b, 2 * count);
}

/* ---------------------------------------------------------------- parsing */
static int is_hex(const char* s)	/* "-" or non-empty even-length lower-case hex */
{
	size_t n = 0;
	if (!strcmp(s, "-")) return 1;
	for (; s[n]; ++n)
		if (!(s[n] >= '0' && s[n] <= '9' || s[n] >= 'a' && s[n] <= 'f')) return 0;
	return n && n % 2 == 0;
}
static size_t hex_len(const char* s) { return strcmp(s, "-") ? strlen(s) / 2 : 0; }
static int is_hexn(const char* s, size_t n) { return is_hex(s) && hex_len(s) == n; }
static int is_key(const char* s) { return is_hexn(s, 16) || is_hexn(s, 24) || is_hexn(s, 32); }
static int is_ivN(const char* s) { return !strcmp(s, "N") || is_hexn(s, 16); }
static int is_dec(const char* s)
{
	size_t n = 0;
	for (; s[n]; ++n)
		if (s[n] < '0' || s[n] > '9') return 0;
	return n >= 1 && (n <= 19 || n == 20 && strcmp(s, "18446744073709551615") <= 0);	/* fits u64 */
}
static int is_decr(const char* s, unsigned long long lo, unsigned long long hi)
{
	return is_dec(s) && u_arg(s) >= lo && u_arg(s) <= hi;
}
static int dir_of(const char* s) { return !strcmp(s, "E") ? 1 : !strcmp(s, "D") ? 2 : 0; }
static octet* ivN(const char* s) { size_t n; return strcmp(s, "N") ? hx(s, &n) : 0; }
static u32* u32s_arg(const char* s, size_t nw)	/* u32From of a 4*nw-octet token */
{
	size_t n;
	octet* b = hx(s, &n);
	u32* w = (u32*)buf_n(4 * nw, 0, 4);
	u32From(w, b, 4 * nw);
	return w;
}
static u16* str_arg(const char* s, size_t* count)	/* u16 string, aligned, exactly 2*count octets */
{
	size_t n, i;
	octet* b = hx(s, &n);
	u16* w = (u16*)buf_n(n, 0, 2);
	for (i = 0; i < n / 2; ++i) w[i] = (u16)(b[2 * i] | (u16)b[2 * i + 1] << 8);
	*count = n / 2;
	return w;
}
static int is_str(const char* s) { return is_hex(s) && hex_len(s) % 2 == 0; }

/* ---------------------------------------------------------------- block level */
static int op_tab(int w, int n, char** a)
{
	const u32* t;
	if (n != 1) return 0;
	if (!strcmp(a[0], "H")) { t_hex(beltH(), 256); return 1; }
	t = !strcmp(a[0], "H5") ? H5 : !strcmp(a[0], "H13") ? H13 : !strcmp(a[0], "H21") ? H21 :
		!strcmp(a[0], "H29") ? H29 : 0;
	if (!t) return 0;
	t_u32s(t, 256);
	return 1;
}

static int op_kexp(int w, int n, char** a)
{
	size_t kl;
	octet *key, *k1;
	u32* k2;
	if (n != 1 || !is_key(a[0])) return 0;
	key = hx(a[0], &kl);
	k2 = (u32*)buf_n(32, 0xA5, 4), k1 = dest_n(32);
	beltKeyExpand2(k2, key, kl);
	beltKeyExpand(k1, key, kl);
	t_u32s(k2, 8), t_hex(k1, 32);
	return 1;
}

static int op_g(int w, int n, char** a)
{
	u32 x, y;
	if (n != 2 || !is_dec(a[0]) || !is_dec(a[1])) return 0;
	x = (u32)u_arg(a[1]);
	switch (u_arg(a[0]))
	{
	case 5: y = (G5(x)); break;
	case 13: y = (G13(x)); break;
	case 21: y = (G21(x)); break;
	default: return 0;
	}
	t_u(y);
	return 1;
}

static int op_blk(int w, int n, char** a)
{
	size_t kl, bl;
	octet *key, *blk;
	u32* k2;
	int d;
	if (n != 3 || !(d = dir_of(a[0])) || !is_key(a[1]) || !is_hexn(a[2], 16)) return 0;
	key = hx(a[1], &kl), blk = hx(a[2], &bl);
	k2 = (u32*)buf_n(32, 0xA5, 4);
	beltKeyExpand2(k2, key, kl);
	if (d == 1) beltBlockEncr(blk, k2); else beltBlockDecr(blk, k2);
	t_hex(blk, 16);
	return 1;
}

/* w: 0 inc, 1 mulc, 2 abU */
static int op_blk32(int w, int n, char** a)
{
	u32* b;
	if (n != (w == 2 ? 2 : 1) || !is_hexn(a[0], 16) || w == 2 && !is_dec(a[1])) return 0;
	b = u32s_arg(a[0], 4);
	if (w == 0) { beltBlockIncU32(b); }
	else if (w == 1) beltBlockMulC(b);
	else beltBlockAddBitSizeU32(b, (size_t)u_arg(a[1]));
	t_u32s(b, 4);
	return 1;
}

static int op_abW(int w, int n, char** a)
{
	size_t hl;
	octet* h;
	word* b;
	if (n != 3 || !is_dec(a[0]) || !is_hexn(a[1], 8) || !is_dec(a[2])) return 0;
	if (u_arg(a[0]) != B_PER_W) { t_s("cfg-mismatch"); return 1; }
	h = hx(a[1], &hl);
	b = (word*)buf_n(8, 0, 8);
	wwFrom(b, h, 8);
	beltHalfBlockAddBitSizeW(b, (size_t)u_arg(a[2]));
	wwTo(h, 8, b);
	t_hex(h, 8);
	return 1;
}

static int op_pmul(int w, int n, char** a)
{
	size_t l;
	octet *x, *y;
	word *wa, *wb, *wc;
	if (n != 2 || !is_hexn(a[0], 16) || !is_hexn(a[1], 16)) return 0;
	x = hx(a[0], &l), y = hx(a[1], &l);
	wa = (word*)buf_n(16, 0, 8), wb = (word*)buf_n(16, 0, 8), wc = (word*)buf_n(16, 0xA5, 8);
	wwFrom(wa, x, 16), wwFrom(wb, y, 16);
	beltPolyMul(wc, wa, wb, buf_n(beltPolyMul_deep(), 0xA5, 8));
	wwTo(x, 16, wc);
	t_hex(x, 16);
	return 1;
}

/* w: 0 compr <h32> <x32>, 1 compr2 <s16> <h32> <x32> */
static int op_compr(int w, int n, char** a)
{
	u32 *s = 0, *h, *x;
	void* stack;
	if (n != 2 + w || w && !is_hexn(a[0], 16) || !is_hexn(a[w], 32) || !is_hexn(a[w + 1], 32)) return 0;
	if (w) s = u32s_arg(a[0], 4);
	h = u32s_arg(a[w], 8), x = u32s_arg(a[w + 1], 8);
	stack = buf_n(beltCompr_deep(), 0xA5, 8);
	if (w) beltCompr2(s, h, x, stack), t_u32s(s, 4);
	else beltCompr(h, x, stack);
	t_u32s(h, 8);
	return 1;
}

/* ---------------------------------------------------------------- ECB CBC CFB CTR BDE SDE */
typedef err_t (*mode_f)(void*, const void*, size_t, const octet*, size_t, const octet*);
typedef void (*start_f)(void*, const octet*, size_t, const octet*);
typedef void (*step_f)(void*, size_t, void*);

static err_t ecbE_(void* d, const void* s, size_t c, const octet* k, size_t l, const octet* iv) { return beltECBEncr(d, s, c, k, l); }
static err_t ecbD_(void* d, const void* s, size_t c, const octet* k, size_t l, const octet* iv) { return beltECBDecr(d, s, c, k, l); }
static void ecbStart_(void* st, const octet* k, size_t l, const octet* iv) { beltECBStart(st, k, l); }

typedef struct
{
	int dir, iv;			/* has an <E|D> token, has an <iv> token */
	size_t (*keep)(void);
	start_f start;
	mode_f hl[2];
	step_f step[2];
	size_t min, mult;		/* Step-level chunk guard: |chunk| >= min, multiple of mult */
} mode_d;
enum { M_ECB, M_CBC, M_CFB, M_CTR, M_BDE, M_SDE };
static const mode_d modes[] = {
	{ 1, 0, beltECB_keep, ecbStart_, { ecbE_, ecbD_ }, { beltECBStepE, beltECBStepD }, 16, 1 },
	{ 1, 1, beltCBC_keep, beltCBCStart, { beltCBCEncr, beltCBCDecr }, { beltCBCStepE, beltCBCStepD }, 16, 1 },
	{ 1, 1, beltCFB_keep, beltCFBStart, { beltCFBEncr, beltCFBDecr }, { beltCFBStepE, beltCFBStepD }, 0, 1 },
	{ 0, 1, beltCTR_keep, beltCTRStart, { beltCTR, beltCTR }, { beltCTRStepE, beltCTRStepE }, 0, 1 },
	{ 1, 1, beltBDE_keep, beltBDEStart, { beltBDEEncr, beltBDEDecr }, { beltBDEStepE, beltBDEStepD }, 0, 16 },
	{ 1, 1, 0, 0, { beltSDEEncr, beltSDEDecr }, { 0, 0 }, 0, 0 },
};

/* [<E|D>] <key> [<iv|N>] <src> -> <err> <dest> */
static int op_mode(int w, int n, char** a)
{
	const mode_d* m = modes + w;
	int d = 1, i = 0;
	size_t kl, sl;
	octet *key, *iv = 0, *src, *dst;
	if (n != 2 + m->dir + m->iv) return 0;
	if (m->dir && !(d = dir_of(a[i++]))) return 0;
	if (!is_hex(a[i]) || m->iv && !is_ivN(a[i + 1]) || !is_hex(a[n - 1])) return 0;
	key = hx(a[i++], &kl);
	if (m->iv) iv = ivN(a[i++]);
	src = hx(a[i], &sl);
	dst = dest_n(sl);
	t_err(m->hl[d - 1](dst, src, sl, key, kl, iv));
	t_hex(dst, sl);
	return 1;
}

/* [<E|D>] <key> [<iv>] <chunk>... -> processed chunks [reserved [ctr]] */
static int op_modeS(int w, int n, char** a)
{
	const mode_d* m = modes + w;
	int d = 1, i = 0, j;
	size_t kl, l;
	octet *key, *iv = 0, *st, *c;
	if (n < 1 + m->dir + m->iv) return 0;
	if (m->dir && !(d = dir_of(a[i++]))) return 0;
	if (!is_key(a[i]) || m->iv && !is_hexn(a[i + 1], 16)) return 0;
	for (j = i + 1 + m->iv; j < n; ++j)
		if (!is_hex(a[j]) || hex_len(a[j]) < m->min || hex_len(a[j]) % m->mult) return 0;
	key = hx(a[i++], &kl);
	if (m->iv) iv = hx(a[i++], &l);
	st = buf_n(m->keep(), 0xA5, 8);
	m->start(st, key, kl, iv);
	for (; i < n; ++i)
	{
		c = hx(a[i], &l);
		m->step[d - 1](c, l, st);
		t_hex(c, l);
	}
	if (w == M_CFB) t_u(((belt_cfb_st*)st)->reserved);
	if (w == M_CTR) t_u(((belt_ctr_st*)st)->reserved), t_u32s(((belt_ctr_st*)st)->ctr, 4);
	return 1;
}

/* sdeS <E|D> <key> (<iv> <buf>)... ; |buf| a multiple of 16, >= 32 */
static int op_sdeS(int w, int n, char** a)
{
	int d, i;
	size_t kl, l;
	octet *key, *iv, *st, *c;
	if (n < 2 || n % 2 || !(d = dir_of(a[0])) || !is_key(a[1])) return 0;
	for (i = 2; i < n; i += 2)
		if (!is_hexn(a[i], 16) || !is_hex(a[i + 1]) || hex_len(a[i + 1]) < 32 || hex_len(a[i + 1]) % 16) return 0;
	key = hx(a[1], &kl);
	st = buf_n(beltSDE_keep(), 0xA5, 8);
	beltSDEStart(st, key, kl);
	for (i = 2; i < n; i += 2)
	{
		iv = hx(a[i], &l), c = hx(a[i + 1], &l);
		if (d == 1) beltSDEStepE(c, l, iv, st); else beltSDEStepD(c, l, iv, st);
		t_hex(c, l);
	}
	return 1;
}

/* ---------------------------------------------------------------- MAC Hash HMAC */
typedef struct
{
	int key;				/* 0 none, 1 any length, 2 Step-level key must be 16/24/32 */
	size_t len;				/* full tag length */
	size_t (*keep)(void);
	void (*stepA)(const void*, size_t, void*);
	void (*stepG)(octet*, void*);
	void (*stepG2)(octet*, size_t, void*);
	bool_t (*stepV)(const octet*, void*);
	bool_t (*stepV2)(const octet*, size_t, void*);
} auth_d;
enum { A_MAC, A_HASH, A_HMAC };
static const auth_d auths[] = {
	{ 2, 8, beltMAC_keep, beltMACStepA, beltMACStepG, beltMACStepG2, beltMACStepV, beltMACStepV2 },
	{ 0, 32, beltHash_keep, beltHashStepH, beltHashStepG, beltHashStepG2, beltHashStepV, beltHashStepV2 },
	{ 1, 32, beltHMAC_keep, beltHMACStepA, beltHMACStepG, beltHMACStepG2, beltHMACStepV, beltHMACStepV2 },
};

/* [<key>] <src> -> <err> <tag> */
static int op_auth(int w, int n, char** a)
{
	const auth_d* m = auths + w;
	int k = m->key != 0;
	size_t kl = 0, sl;
	octet *key = 0, *src, *tag;
	err_t e;
	if (n != 1 + k || !is_hex(a[0]) || !is_hex(a[n - 1])) return 0;
	if (k) key = hx(a[0], &kl);
	src = hx(a[k], &sl);
	tag = dest_n(m->len);
	e = w == A_MAC ? beltMAC(tag, src, sl, key, kl) : w == A_HASH ? beltHash(tag, src, sl) :
		beltHMAC(tag, src, sl, key, kl);
	t_err(e), t_hex(tag, m->len);
	return 1;
}

/* [<key>] <tok>... ; tok = hex chunk | G | G<n> | V<hex> | W<hex len> */
static int op_authS(int w, int n, char** a)
{
	const auth_d* m = auths + w;
	int k = m->key != 0, i;
	size_t kl = 0, l;
	octet *key = 0, *st, *c;
	if (n < k || k && !(m->key == 2 ? is_key(a[0]) : is_hex(a[0]))) return 0;
	for (i = k; i < n; ++i)
	{
		const char* t = a[i];
		if (is_hex(t) || !strcmp(t, "G")) continue;
		if (t[0] == 'G' && is_decr(t + 1, 0, m->len)) continue;
		if (t[0] == 'V' && is_hex(t + 1) && hex_len(t + 1) <= m->len) continue;
		if (t[0] == 'W' && is_hexn(t + 1, m->len)) continue;
		return 0;
	}
	if (k) key = hx(a[0], &kl);
	st = buf_n(m->keep(), 0xA5, 8);
	if (w == A_MAC) beltMACStart(st, key, kl);
	else if (w == A_HASH) beltHashStart(st);
	else beltHMACStart(st, key, kl);
	for (i = k; i < n; ++i)
	{
		const char* t = a[i];
		if (t[0] == 'G')
		{
			l = t[1] ? (size_t)u_arg(t + 1) : m->len;
			c = dest_n(l);
			if (t[1]) m->stepG2(c, l, st); else m->stepG(c, st);
			t_hex(c, l);
		}
		else if (t[0] == 'V')
			c = hx(t + 1, &l), t_u(m->stepV2(c, l, st) ? 1 : 0);
		else if (t[0] == 'W')
			c = hx(t + 1, &l), t_u(m->stepV(c, st) ? 1 : 0);
		else
			c = hx(t, &l), m->stepA(c, l, st);
	}
	return 1;
}

/* ---------------------------------------------------------------- KRP PBKDF2 */
static int op_krp(int w, int n, char** a)
{
	size_t kl, l, m;
	octet *key, *level, *header, *dst;
	if (n != 4 || !is_hex(a[0]) || !is_decr(a[1], 0, 65536) || !is_hexn(a[2], 12) || !is_ivN(a[3])) return 0;
	key = hx(a[0], &kl), m = (size_t)u_arg(a[1]), level = hx(a[2], &l), header = ivN(a[3]);
	dst = dest_n(m);
	t_err(beltKRP(dst, m, key, kl, level, header)), t_hex(dst, m);
	return 1;
}

/* krpS <key> <level12> (<m> <header16>)... ; m in {16,24,32}, m <= |key| */
static int op_krpS(int w, int n, char** a)
{
	int i;
	size_t kl, l, m;
	octet *key, *level, *header, *st, *dst;
	if (n < 2 || n % 2 || !is_key(a[0]) || !is_hexn(a[1], 12)) return 0;
	for (i = 2; i < n; i += 2)
	{
		if (!is_dec(a[i]) || !is_hexn(a[i + 1], 16)) return 0;
		m = (size_t)u_arg(a[i]);
		if (m != 16 && m != 24 && m != 32 || m > hex_len(a[0])) return 0;
	}
	key = hx(a[0], &kl), level = hx(a[1], &l);
	st = buf_n(beltKRP_keep(), 0xA5, 8);
	beltKRPStart(st, key, kl, level);
	for (i = 2; i < n; i += 2)
	{
		m = (size_t)u_arg(a[i]), header = hx(a[i + 1], &l);
		dst = dest_n(m);
		beltKRPStepG(dst, m, header, st);
		t_hex(dst, m);
	}
	return 1;
}

static int op_pbkdf(int w, int n, char** a)
{
	size_t pl, sl;
	octet *pwd, *salt, *key;
	if (n != 3 || !is_hex(a[0]) || !is_dec(a[1]) || !is_hex(a[2])) return 0;
	pwd = hx(a[0], &pl), salt = hx(a[2], &sl), key = buf_n(32, 0xA5, 4);
	t_err(beltPBKDF2(key, pwd, pl, (size_t)u_arg(a[1]), salt, sl)), t_hex(key, 32);
	return 1;
}

/* ---------------------------------------------------------------- WBL KWP */
/* wbl <E|D|R|EB|EO|DB|DO> <key> <round0> <buf> -> <buf> <round> */
static int op_wbl(int w, int n, char** a)
{
	static const char* const names[] = { "E", "D", "R", "EB", "EO", "DB", "DO" };
	static const step_f fns[] = { beltWBLStepE, beltWBLStepD, beltWBLStepR, beltWBLStepEBase,
		beltWBLStepEOpt, beltWBLStepDBase, beltWBLStepDOpt };
	int f;
	size_t kl, l;
	octet *key, *c;
	belt_wbl_st* st;
	if (n != 4) return 0;
	for (f = 0; f < 7 && strcmp(a[0], names[f]); ++f);
	if (f == 7 || !is_key(a[1]) || !is_dec(a[2]) || !is_hex(a[3]) || hex_len(a[3]) < 32) return 0;
	if ((f == 4 || f == 6) && hex_len(a[3]) % 16) return 0;
	key = hx(a[1], &kl), c = hx(a[3], &l);
	st = (belt_wbl_st*)buf_n(beltWBL_keep(), 0xA5, 8);
	beltWBLStart(st, key, kl);
	st->round = (word)u_arg(a[2]);
	fns[f](c, l, st);
	t_hex(c, l), t_u((unsigned long long)st->round);
	return 1;
}

/* wblD2 <key> <buf1> <buf2> -> <buf1> <buf2> <round> */
static int op_wblD2(int w, int n, char** a)
{
	size_t kl, l1, l2;
	octet *key, *b1, *b2;
	belt_wbl_st* st;
	if (n != 3 || !is_key(a[0]) || !is_hex(a[1]) || hex_len(a[1]) < 16 || !is_hexn(a[2], 16)) return 0;
	key = hx(a[0], &kl), b1 = hx(a[1], &l1), b2 = hx(a[2], &l2);
	st = (belt_wbl_st*)buf_n(beltWBL_keep(), 0xA5, 8);
	beltWBLStart(st, key, kl);
	beltWBLStepD2(b1, b2, l1 + 16, st);
	t_hex(b1, l1), t_hex(b2, 16), t_u((unsigned long long)st->round);
	return 1;
}

/* kwp <W|U> <key> <header16|N> <src> -> <err> <dest> */
static int op_kwp(int w, int n, char** a)
{
	int u;
	size_t kl, sl, dl;
	octet *key, *header, *src, *dst;
	if (n != 4 || strcmp(a[0], "W") && strcmp(a[0], "U") || !is_hex(a[1]) || !is_ivN(a[2]) || !is_hex(a[3])) return 0;
	u = a[0][0] == 'U';
	key = hx(a[1], &kl), header = ivN(a[2]), src = hx(a[3], &sl);
	dl = u ? (sl < 16 ? 0 : sl - 16) : sl + 16;
	dst = dest_n(dl);
	t_err(u ? beltKWPUnwrap(dst, src, sl, header, key, kl) : beltKWPWrap(dst, src, sl, header, key, kl));
	t_hex(dst, dl);
	return 1;
}

/* ---------------------------------------------------------------- DWP CHE */
typedef struct
{
	size_t (*keep)(void);
	start_f start;
	void (*stepI)(const void*, size_t, void*);
	step_f stepE;
	void (*stepA)(const void*, size_t, void*);
	step_f stepD;
	void (*stepG)(octet*, void*);
	bool_t (*stepV)(const octet*, void*);
	err_t (*wrap)(void*, octet*, const void*, size_t, const void*, size_t, const octet*, size_t, const octet*);
	err_t (*unwrap)(void*, const void*, size_t, const void*, size_t, const octet*, const octet*, size_t, const octet*);
} aead_d;
static const aead_d aeads[] = {
	{ beltDWP_keep, beltDWPStart, beltDWPStepI, beltDWPStepE, beltDWPStepA, beltDWPStepD, beltDWPStepG,
		beltDWPStepV, beltDWPWrap, beltDWPUnwrap },
	{ beltCHE_keep, beltCHEStart, beltCHEStepI, beltCHEStepE, beltCHEStepA, beltCHEStepD, beltCHEStepG,
		beltCHEStepV, beltCHEWrap, beltCHEUnwrap },
};

/* W <key> <iv|N> <src1> <src2> -> <err> <dest> <mac8> ;  U <key> <iv|N> <src1> <src2> <mac8> -> <err> <dest> */
static int op_aead(int w, int n, char** a)
{
	const aead_d* m = aeads + w;
	int u;
	size_t kl, l1, l2, l;
	octet *key, *iv, *s1, *s2, *mac, *dst;
	if (n < 1 || strcmp(a[0], "W") && strcmp(a[0], "U")) return 0;
	u = a[0][0] == 'U';
	if (n != 5 + u || !is_hex(a[1]) || !is_ivN(a[2]) || !is_hex(a[3]) || !is_hex(a[4]) || u && !is_hexn(a[5], 8)) return 0;
	key = hx(a[1], &kl), iv = ivN(a[2]), s1 = hx(a[3], &l1), s2 = hx(a[4], &l2);
	dst = dest_n(l1);
	if (u)
		mac = hx(a[5], &l), t_err(m->unwrap(dst, s1, l1, s2, l2, mac, key, kl, iv)), t_hex(dst, l1);
	else
		mac = dest_n(8), t_err(m->wrap(dst, mac, s1, l1, s2, l2, key, kl, iv)), t_hex(dst, l1), t_hex(mac, 8);
	return 1;
}

/* <key> <iv> <tok>... ; tok = I<hex> | E<hex> | A<hex> | D<hex> | G | V<hex8> */
static int op_aeadS(int w, int n, char** a)
{
	const aead_d* m = aeads + w;
	int i;
	size_t kl, l;
	octet *key, *iv, *st, *c;
	if (n < 2 || !is_key(a[0]) || !is_hexn(a[1], 16)) return 0;
	for (i = 2; i < n; ++i)
	{
		const char* t = a[i];
		if (!strcmp(t, "G") || t[0] == 'V' && is_hexn(t + 1, 8)) continue;
		if (t[0] && strchr("IEAD", t[0]) && is_hex(t + 1)) continue;
		return 0;
	}
	key = hx(a[0], &kl), iv = hx(a[1], &l);
	st = buf_n(m->keep(), 0xA5, 8);
	m->start(st, key, kl, iv);
	for (i = 2; i < n; ++i)
	{
		const char* t = a[i];
		if (t[0] == 'G') { c = dest_n(8); m->stepG(c, st); t_hex(c, 8); continue; }
		c = hx(t + 1, &l);
		switch (t[0])
		{
		case 'I': m->stepI(c, l, st); break;
		case 'A': m->stepA(c, l, st); break;
		case 'E': m->stepE(c, l, st); t_hex(c, l); break;
		case 'D': m->stepD(c, l, st); t_hex(c, l); break;
		case 'V': t_u(m->stepV(c, st) ? 1 : 0); break;
		}
	}
	return 1;
}

/* ---------------------------------------------------------------- FMT */
static int op_fmtB(int w, int n, char** a)
{
	if (n != 2 || !is_decr(a[0], 2, 65536) || !is_decr(a[1], 1, 300)) return 0;
	t_u(beltFMTCalcB((u32)u_arg(a[0]), (size_t)u_arg(a[1])));
	return 1;
}

/* s2b <b> <mod> <str> -> 8b octets */
static int op_s2b(int w, int n, char** a)
{
	size_t b, count;
	u32 mod;
	u16* str;
	octet* bin;
	if (n != 3 || !is_decr(a[0], 1, 4096) || !is_decr(a[1], 2, 65536) || !is_str(a[2])) return 0;
	b = (size_t)u_arg(a[0]), mod = (u32)u_arg(a[1]), count = hex_len(a[2]) / 2;
	if (mod == 65536 ? 2 * count > 8 * b : count < 1) return 0;
	str = str_arg(a[2], &count);
	bin = buf_n(8 * b, 0xA5, 8);
	beltStr2Bin(bin, b, mod, str, count);
	t_hex(bin, 8 * b);
	return 1;
}

/* b2s <A|S> <mod> <str> <bin> -> str */
static int op_b2s(int w, int n, char** a)
{
	size_t count, l;
	u32 mod;
	u16* str;
	octet* bin;
	if (n != 4 || strcmp(a[0], "A") && strcmp(a[0], "S") || !is_decr(a[1], 2, 65536) || !is_str(a[2]) ||
		!is_hex(a[3]) || hex_len(a[3]) < 8 || hex_len(a[3]) % 8) return 0;
	mod = (u32)u_arg(a[1]);
	if (mod == 65536 && hex_len(a[2]) > hex_len(a[3])) return 0;
	str = str_arg(a[2], &count), bin = hx(a[3], &l);
	if (a[0][0] == 'A') beltBin2StrAdd(mod, str, count, bin, l / 8);
	else beltBin2StrSub((word)mod, str, count, bin, l / 8);
	t_str(str, count);
	return 1;
}

static int op_b32(int w, int n, char** a)
{
	size_t kl, l;
	octet *key, *blk;
	u32* k2;
	if (n != 2 || !is_key(a[0]) || !is_hexn(a[1], 24)) return 0;
	key = hx(a[0], &kl), blk = hx(a[1], &l);
	k2 = (u32*)buf_n(32, 0xA5, 4);
	beltKeyExpand2(k2, key, kl);
	belt32BlockEncr(blk, k2);
	t_hex(blk, 24);
	return 1;
}

/* fmt <E|D> <mod> <key> <iv16|N> <str> -> <err> <dest> */
static int op_fmt(int w, int n, char** a)
{
	int d;
	size_t kl, count;
	u32 mod;
	octet *key, *iv;
	u16 *src, *dst;
	if (n != 5 || !(d = dir_of(a[0])) || !is_decr(a[1], 0, 0xFFFFFFFFu) || !is_hex(a[2]) || !is_ivN(a[3]) ||
		!is_str(a[4])) return 0;
	mod = (u32)u_arg(a[1]), key = hx(a[2], &kl), iv = ivN(a[3]), src = str_arg(a[4], &count);
	dst = (u16*)buf_n(2 * count, 0xA5, 2);
	t_err(d == 1 ? beltFMTEncr(dst, mod, src, count, key, kl, iv) : beltFMTDecr(dst, mod, src, count, key, kl, iv));
	t_str(dst, count);
	return 1;
}

/* fmtS <E|D> <mod> <count> <key> (<iv16|N> <str>)... -> strs */
static int op_fmtS(int w, int n, char** a)
{
	int d, i;
	size_t kl, count, c;
	u32 mod;
	octet *key, *iv, *st;
	u16* s;
	if (n < 4 || n % 2 || !(d = dir_of(a[0])) || !is_decr(a[1], 2, 65536) || !is_decr(a[2], 2, 600) || !is_key(a[3]))
		return 0;
	mod = (u32)u_arg(a[1]), count = (size_t)u_arg(a[2]);
	for (i = 4; i < n; i += 2)
		if (!is_ivN(a[i]) || !is_hexn(a[i + 1], 2 * count)) return 0;
	key = hx(a[3], &kl);
	st = buf_n(beltFMT_keep(mod, count), 0xA5, 8);
	beltFMTStart(st, mod, count, key, kl);
	for (i = 4; i < n; i += 2)
	{
		iv = ivN(a[i]), s = str_arg(a[i + 1], &c);
		if (d == 1) beltFMTStepE(s, iv, st); else beltFMTStepD(s, iv, st);
		t_str(s, c);
	}
	return 1;
}

/* ---------------------------------------------------------------- dispatch */
static const struct { const char* name; int (*fn)(int, int, char**); int w; } ops[] = {
	{ "tab", op_tab, 0 }, { "kexp", op_kexp, 0 }, { "g", op_g, 0 }, { "blk", op_blk, 0 },
	{ "inc", op_blk32, 0 }, { "mulc", op_blk32, 1 }, { "abU", op_blk32, 2 }, { "abW", op_abW, 0 },
	{ "pmul", op_pmul, 0 }, { "compr", op_compr, 0 }, { "compr2", op_compr, 1 },
	{ "ecb", op_mode, M_ECB }, { "cbc", op_mode, M_CBC }, { "cfb", op_mode, M_CFB }, { "ctr", op_mode, M_CTR },
	{ "bde", op_mode, M_BDE }, { "sde", op_mode, M_SDE },
	{ "ecbS", op_modeS, M_ECB }, { "cbcS", op_modeS, M_CBC }, { "cfbS", op_modeS, M_CFB },
	{ "ctrS", op_modeS, M_CTR }, { "bdeS", op_modeS, M_BDE }, { "sdeS", op_sdeS, 0 },
	{ "mac", op_auth, A_MAC }, { "hash", op_auth, A_HASH }, { "hmac", op_auth, A_HMAC },
	{ "macS", op_authS, A_MAC }, { "hashS", op_authS, A_HASH }, { "hmacS", op_authS, A_HMAC },
	{ "krp", op_krp, 0 }, { "krpS", op_krpS, 0 }, { "pbkdf", op_pbkdf, 0 },
	{ "wbl", op_wbl, 0 }, { "wblD2", op_wblD2, 0 }, { "kwp", op_kwp, 0 },
	{ "dwp", op_aead, 0 }, { "che", op_aead, 1 }, { "dwpS", op_aeadS, 0 }, { "cheS", op_aeadS, 1 },
	{ "fmtB", op_fmtB, 0 }, { "s2b", op_s2b, 0 }, { "b2s", op_b2s, 0 }, { "b32", op_b32, 0 },
	{ "fmt", op_fmt, 0 }, { "fmtS", op_fmtS, 0 },
};

/* an op function validates ALL its tokens before it emits anything; 0 => bad-op */
static void handle(int argc, char** argv)
{
	int ok = 0;
	size_t i;
	ntok_ = 0;
	for (i = 0; argc >= 1 && i < sizeof ops / sizeof ops[0]; ++i)
		if (!strcmp(argv[0], ops[i].name))
		{
			ok = ops[i].fn(ops[i].w, argc - 1, argv + 1);
			break;
		}
	if (!ok) fputs("bad-op", stdout);
	else if (!ntok_) fputc('.', stdout);
	pool_free();
}

/* C17 harness: token layer on the real library (btok_cvc.c, btok_sm.c, bpki.c).
   Static routines and the SM state layout are reached by including the .c files.
   Inputs sit flush against the end of exact-size heap blocks (hex_arg), outputs go to blocks of
   exactly the size announced by the null-output probe call, so ASan traps one-octet over-reads/writes.

   One op per line, one result line per op.  err_t is printed in decimal (0 = ERR_OK).

   Secure messaging (state = btokSMStart(KEY) with the 16-octet counter then set to CTR):
     smstart KEY                         -> key1 key2 ctr
     smctr CTR                           -> counter after btokSMCtrInc
     smcw KEY CTR CLA INS P1 P2 CDF RDFLEN -> code [apdu]      (size probe compared with the real length)
     smcu KEY CTR APDU                   -> code0 [size0-hdr] | code [cla ins p1 p2 cdf rdflen]
     smrw KEY CTR SW1 SW2 RDF            -> code [apdu]
     smru KEY CTR APDU                   -> code0 [size0-hdr] | code [sw1 sw2 rdf]
     smcw0 CLA INS P1 P2 CDF RDFLEN | smcu0 APDU | smrw0 SW1 SW2 RDF | smru0 APDU   (state == NULL)
     smseq KEY STEP...                   two parties A, B started with KEY, one shared wire buffer;
         STEP = Xi (CtrInc) | Xcw:CLA:INS:P1:P2:CDF:RDFLEN | Xcu | Xrw:SW1:SW2:RDF | Xru  (X = A|B)
         -> one field per step joined by ';'
   CV certificates (CVC = AUTH HOLDER FROM UNTIL EID ESIGN PUBKEY, names in hex without the NUL; PUBKEY "-" = pubkey_len 0):
     cvccheck CVC                        -> code                                   btokCVCCheck
     cvccheck2 CVC CVCA                  -> code                                   btokCVCCheck2
     cvcbody CVC                         -> body | err                             btokCVCBodyEnc (static)
     cvcbdec BODY                        -> CVC consumed | err                     btokCVCBodyDec (static)
     cvcwrap CVC PRIVKEY                 -> code [cert pubkey sig]                 btokCVCWrap
     cvcunwrap CERT MODE PUBKEY          -> code [CVC sig]        MODE 0: (pubkey,len) ; 1: (0,0) ; 2: (cvc->pubkey,0) ; 3: (foreign ptr,0)
     cvciss CVC CERTA PRIVKEYA           -> code [cert pubkey sig]                 btokCVCIss
     cvcval CERT CERTA DATE              -> code           (DATE "N" = NULL)       btokCVCVal
     cvcval2 CERT CVCA DATE              -> code [CVC sig]                         btokCVCVal2
     cvcmatch CERT PRIVKEY               -> code                                   btokCVCMatch
     cvclen DER                          -> len | err                              btokCVCLen
     sigvfy BODY SIG PUBKEY              -> code                                   btokVerify (static)
     pubcalc PRIVKEY                     -> code [pubkey]                          btokPubkeyCalc (static)
   Containers:
     pkwrap KEY PWD SALT ITER | shwrap SHARE PWD SALT ITER  -> code [epki]
     pkwraplen KEY ITER | shwraplen SHARE ITER              -> code [announced length]   (epki == 0: sizing pass only)
     pkunwrap EPKI PWD | shunwrap EPKI PWD                  -> code0 [len0 | code [payload]]   (length probe, then the call)
     rawwrap KIND PAYLOAD PWD SALT ITER  -> epki : PBKDF2 + beltKWPWrap + bpkiEdataEnc WITHOUT the iter/length checks
                                          (KIND pk|sh selects bpkiPrivkeyEnc/bpkiShareEnc; KIND raw wraps PAYLOAD itself)
     pbkdf PWD ITER SALT                 -> code [key]
   (the certificate request functions bpkiCSRRewrap/Unwrap are exercised by C08 (parser) and C02 (bign); not here) */
#include <stdio.h>
#include "crypto/bpki.c"
#undef derEncStep
#undef derDecStep
#define oid_bign_pubkey oid_bign_pubkey_cvc_
#include "crypto/btok/btok_cvc.c"
#undef oid_bign_pubkey
#undef derEncStep
#undef derDecStep
#include "crypto/btok/btok_sm.c"
#include <bee2/core/apdu.h>
#include <bee2/core/hex.h>
static void handle(int argc, char** argv);
#include "common.h"

#define ERR ((size_t)-1)
#define OP(s) (strcmp(argv[0], s) == 0)

static unsigned char* out_buf(size_t n)
{
	unsigned char* p = (unsigned char*)malloc(n ? n : 1);
	memset(p, 0xA5, n ? n : 1);
	return n ? p : p + 1;
}
static void out_free(unsigned char* p, size_t n) { free(n ? p : p - 1); }

static int fill(octet* dst, size_t cap, const char* tok, size_t* len)
{
	size_t n; octet* v = hex_arg(tok, &n);
	if (n > cap) { hex_free(v, n); return 0; }
	memcpy(dst, v, n);
	if (len) *len = n;
	hex_free(v, n);
	return 1;
}

/* ---------------------------------------------------------------- secure messaging */

static void* sm_state(const char* keytok, const char* ctrtok)
{
	size_t n, m; octet* key = hex_arg(keytok, &n);
	octet* ctr;
	btok_sm_st* st;
	if (n != 32) { hex_free(key, n); return 0; }
	st = (btok_sm_st*)malloc(btokSM_keep());
	btokSMStart(st, key);
	hex_free(key, n);
	if (ctrtok)
	{
		ctr = hex_arg(ctrtok, &m);
		if (m != 16) { hex_free(ctr, m); free(st); return 0; }
		memcpy(st->ctr, ctr, 16);
		hex_free(ctr, m);
	}
	return st;
}

static apdu_cmd_t* mk_cmd(const char* cla, const char* ins, const char* p1, const char* p2,
	const char* cdf, const char* rdflen, size_t* size)
{
	size_t n; octet* x = hex_arg(cdf, &n);
	apdu_cmd_t* cmd = (apdu_cmd_t*)out_buf(sizeof(apdu_cmd_t) + n);
	memset(cmd, 0, sizeof(apdu_cmd_t));
	cmd->cla = (octet)u_arg(cla), cmd->ins = (octet)u_arg(ins);
	cmd->p1 = (octet)u_arg(p1), cmd->p2 = (octet)u_arg(p2);
	cmd->cdf_len = n, cmd->rdf_len = (size_t)u_arg(rdflen);
	memcpy(cmd->cdf, x, n);
	hex_free(x, n);
	*size = sizeof(apdu_cmd_t) + n;
	return cmd;
}

static apdu_resp_t* mk_resp(const char* sw1, const char* sw2, const char* rdf, size_t* size)
{
	size_t n; octet* x = hex_arg(rdf, &n);
	apdu_resp_t* resp = (apdu_resp_t*)out_buf(sizeof(apdu_resp_t) + n);
	memset(resp, 0, sizeof(apdu_resp_t));
	resp->sw1 = (octet)u_arg(sw1), resp->sw2 = (octet)u_arg(sw2);
	resp->rdf_len = n;
	memcpy(resp->rdf, x, n);
	hex_free(x, n);
	*size = sizeof(apdu_resp_t) + n;
	return resp;
}

/* wrap with the size probe first; returns the code, *out / *len = exact-size result */
static err_t do_cw(octet** out, size_t* len, const apdu_cmd_t* cmd, void* st)
{
	size_t len2 = 0;
	err_t code = btokSMCmdWrap(0, len, cmd, st);
	*out = 0;
	if (code != ERR_OK) return code;
	*out = out_buf(*len);
	code = btokSMCmdWrap(*out, &len2, cmd, st);
	if (code == ERR_OK && len2 != *len) code = 9999;
	return code;
}
static err_t do_rw(octet** out, size_t* len, const apdu_resp_t* resp, void* st)
{
	size_t len2 = 0;
	err_t code = btokSMRespWrap(0, len, resp, st);
	*out = 0;
	if (code != ERR_OK) return code;
	*out = out_buf(*len);
	code = btokSMRespWrap(*out, &len2, resp, st);
	if (code == ERR_OK && len2 != *len) code = 9999;
	return code;
}

static void show_cu(const octet* x, size_t n, void* st)
{
	err_t code, code0;
	size_t size = 0x5A5A, size0 = 0x5A5A;
	code0 = btokSMCmdUnwrap(0, &size0, x, n, st);           /* format check only */
	printf("%u", (unsigned)code0);
	if (code0 == ERR_OK)
	{
		apdu_cmd_t* cmd = (apdu_cmd_t*)out_buf(size0);
		printf(" %zu | ", size0 - sizeof(apdu_cmd_t));
		code = btokSMCmdUnwrap(cmd, &size, x, n, st);
		printf("%u", (unsigned)code);
		if (code == ERR_OK)
		{
			if (size != size0 || size != sizeof(apdu_cmd_t) + cmd->cdf_len) printf(" size-mismatch");
			else
			{
				printf(" %u %u %u %u ", cmd->cla, cmd->ins, cmd->p1, cmd->p2);
				put_hex(cmd->cdf, cmd->cdf_len);
				printf(" %zu", cmd->rdf_len);
			}
		}
		out_free((unsigned char*)cmd, size0);
	}
}

static void show_ru(const octet* x, size_t n, void* st)
{
	err_t code, code0;
	size_t size = 0x5A5A, size0 = 0x5A5A;
	code0 = btokSMRespUnwrap(0, &size0, x, n, st);
	printf("%u", (unsigned)code0);
	if (code0 == ERR_OK)
	{
		apdu_resp_t* resp = (apdu_resp_t*)out_buf(size0);
		printf(" %zu | ", size0 - sizeof(apdu_resp_t));
		code = btokSMRespUnwrap(resp, &size, x, n, st);
		printf("%u", (unsigned)code);
		if (code == ERR_OK)
		{
			if (size != size0 || size != sizeof(apdu_resp_t) + resp->rdf_len) printf(" size-mismatch");
			else
			{
				printf(" %u %u ", resp->sw1, resp->sw2);
				put_hex(resp->rdf, resp->rdf_len);
			}
		}
		out_free((unsigned char*)resp, size0);
	}
}

/* split "a:b:c" in place */
static int split_colon(char* s, char** f, int max)
{
	int k = 0;
	while (k < max)
	{
		f[k++] = s;
		while (*s && *s != ':') ++s;
		if (!*s) break;
		*s++ = 0;
	}
	return k;
}

static int handle_sm(int argc, char** argv)
{
	size_t n = 0, len = 0, size;
	octet* x = 0; octet* v = 0;
	err_t code;
	if (OP("smstart") && argc == 2)
	{
		btok_sm_st* st = (btok_sm_st*)sm_state(argv[1], 0);
		if (!st) { printf("bad-op"); return 1; }
		put_hex(st->key1, 32); printf(" "); put_hex(st->key2, 32); printf(" "); put_hex(st->ctr, 16);
		free(st);
	}
	else if (OP("smctr") && argc == 2)
	{
		static const char zk[] = "0000000000000000000000000000000000000000000000000000000000000000";
		btok_sm_st* st = (btok_sm_st*)sm_state(zk, argv[1]);
		if (!st) { printf("bad-op"); return 1; }
		btokSMCtrInc(st);
		put_hex(st->ctr, 16);
		free(st);
	}
	else if ((OP("smcw") && argc == 9) || (OP("smcw0") && argc == 7))
	{
		int z = OP("smcw0");
		void* st = z ? 0 : sm_state(argv[1], argv[2]);
		apdu_cmd_t* cmd;
		if (!z && !st) { printf("bad-op"); return 1; }
		cmd = z ? mk_cmd(argv[1], argv[2], argv[3], argv[4], argv[5], argv[6], &size) :
			mk_cmd(argv[3], argv[4], argv[5], argv[6], argv[7], argv[8], &size);
		code = do_cw(&v, &len, cmd, st);
		printf("%u", (unsigned)code);
		if (code == ERR_OK) printf(" "), put_hex(v, len);
		if (v) out_free(v, len);
		out_free((unsigned char*)cmd, size); free(st);
	}
	else if ((OP("smcu") && argc == 4) || (OP("smcu0") && argc == 2))
	{
		int z = OP("smcu0");
		void* st = z ? 0 : sm_state(argv[1], argv[2]);
		if (!z && !st) { printf("bad-op"); return 1; }
		x = hex_arg(argv[z ? 1 : 3], &n);
		show_cu(x, n, st);
		hex_free(x, n); free(st);
	}
	else if ((OP("smrw") && argc == 6) || (OP("smrw0") && argc == 4))
	{
		int z = OP("smrw0");
		void* st = z ? 0 : sm_state(argv[1], argv[2]);
		apdu_resp_t* resp;
		if (!z && !st) { printf("bad-op"); return 1; }
		resp = z ? mk_resp(argv[1], argv[2], argv[3], &size) : mk_resp(argv[3], argv[4], argv[5], &size);
		code = do_rw(&v, &len, resp, st);
		printf("%u", (unsigned)code);
		if (code == ERR_OK) printf(" "), put_hex(v, len);
		if (v) out_free(v, len);
		out_free((unsigned char*)resp, size); free(st);
	}
	else if ((OP("smru") && argc == 4) || (OP("smru0") && argc == 2))
	{
		int z = OP("smru0");
		void* st = z ? 0 : sm_state(argv[1], argv[2]);
		if (!z && !st) { printf("bad-op"); return 1; }
		x = hex_arg(argv[z ? 1 : 3], &n);
		show_ru(x, n, st);
		hex_free(x, n); free(st);
	}
	else if (OP("smseq") && argc >= 3)
	{
		void* S[2];
		octet* wire = 0; size_t wire_len = 0;
		int i;
		S[0] = sm_state(argv[1], 0), S[1] = sm_state(argv[1], 0);
		if (!S[0] || !S[1]) { printf("bad-op"); return 1; }
		for (i = 2; i < argc; ++i)
		{
			char* f[8];
			int k = split_colon(argv[i], f, 8);
			void* st;
			const char* op;
			if (i > 2) printf(";");
			if ((f[0][0] != 'A' && f[0][0] != 'B') || strlen(f[0]) < 2) { printf("bad-step"); continue; }
			st = S[f[0][0] == 'B'];
			op = f[0] + 1;
			if (strcmp(op, "i") == 0 && k == 1)
			{
				btokSMCtrInc(st);
				put_hex(((btok_sm_st*)st)->ctr, 16);
			}
			else if (strcmp(op, "cw") == 0 && k == 7)
			{
				apdu_cmd_t* cmd = mk_cmd(f[1], f[2], f[3], f[4], f[5], f[6], &size);
				code = do_cw(&v, &len, cmd, st);
				printf("%u", (unsigned)code);
				if (code == ERR_OK)
				{
					printf(" "), put_hex(v, len);
					if (wire) out_free(wire, wire_len);
					wire = v, wire_len = len;
				}
				else if (v) out_free(v, len);
				out_free((unsigned char*)cmd, size);
			}
			else if (strcmp(op, "rw") == 0 && k == 4)
			{
				apdu_resp_t* resp = mk_resp(f[1], f[2], f[3], &size);
				code = do_rw(&v, &len, resp, st);
				printf("%u", (unsigned)code);
				if (code == ERR_OK)
				{
					printf(" "), put_hex(v, len);
					if (wire) out_free(wire, wire_len);
					wire = v, wire_len = len;
				}
				else if (v) out_free(v, len);
				out_free((unsigned char*)resp, size);
			}
			else if (strcmp(op, "cu") == 0 && k == 1)
			{
				if (!wire) printf("no-wire"); else show_cu(wire, wire_len, st);
			}
			else if (strcmp(op, "ru") == 0 && k == 1)
			{
				if (!wire) printf("no-wire"); else show_ru(wire, wire_len, st);
			}
			else printf("bad-step");
		}
		if (wire) out_free(wire, wire_len);
		free(S[0]); free(S[1]);
	}
	else return 0;
	return 1;
}


/* ---------------------------------------------------------------- CV certificates */

static void put_cvc(const btok_cvc_t* c)
{
	put_hex(c->authority, strnlen(c->authority, 13)); printf(" ");
	put_hex(c->holder, strnlen(c->holder, 13)); printf(" ");
	put_hex(c->from, 6); printf(" "); put_hex(c->until, 6); printf(" ");
	put_hex(c->hat_eid, 5); printf(" "); put_hex(c->hat_esign, 2); printf(" ");
	put_hex(c->pubkey, c->pubkey_len <= 128 ? c->pubkey_len : 128); printf(" ");
	put_hex(c->sig, c->sig_len <= 96 ? c->sig_len : 96);
}

/* 7 tokens AUTH HOLDER FROM UNTIL EID ESIGN PUBKEY -> a zeroed btok_cvc_t; names at most 12 octets */
static btok_cvc_t* mk_cvc(char** t)
{
	btok_cvc_t* c = (btok_cvc_t*)out_buf(sizeof(btok_cvc_t));
	size_t len;
	memset(c, 0, sizeof(btok_cvc_t));
	if (!fill((octet*)c->authority, 12, t[0], 0) || !fill((octet*)c->holder, 12, t[1], 0) ||
		!fill(c->from, 6, t[2], &len) || len != 6 || !fill(c->until, 6, t[3], &len) || len != 6 ||
		!fill(c->hat_eid, 5, t[4], &len) || len != 5 || !fill(c->hat_esign, 2, t[5], &len) || len != 2 ||
		!fill(c->pubkey, 128, t[6], &c->pubkey_len))
	{
		out_free((unsigned char*)c, sizeof(btok_cvc_t));
		return 0;
	}
	return c;
}
static void free_cvc(btok_cvc_t* c) { if (c) out_free((unsigned char*)c, sizeof(btok_cvc_t)); }

static octet* date_arg(const char* s)
{
	size_t n; octet* d;
	if (strcmp(s, "N") == 0) return 0;
	d = hex_arg(s, &n);
	if (n != 6) { fprintf(stderr, "bad date\n"); exit(3); }
	return d;
}

static int handle_cvc(int argc, char** argv)
{
	size_t n = 0, m = 0, k = 0, len = 0, r;
	octet* x = 0; octet* y = 0; octet* z = 0; octet* v = 0;
	err_t code;
	if (OP("cvccheck") && argc == 8)
	{
		btok_cvc_t* c = mk_cvc(argv + 1);
		if (!c) { printf("invalid"); return 1; }
		printf("%u", (unsigned)btokCVCCheck(c));
		free_cvc(c);
	}
	else if (OP("cvccheck2") && argc == 15)
	{
		btok_cvc_t* c = mk_cvc(argv + 1);
		btok_cvc_t* ca = mk_cvc(argv + 8);
		if (!c || !ca) { printf("invalid"); free_cvc(c); free_cvc(ca); return 1; }
		printf("%u", (unsigned)btokCVCCheck2(c, ca));
		free_cvc(c); free_cvc(ca);
	}
	else if (OP("cvcbody") && argc == 8)
	{
		btok_cvc_t* c = mk_cvc(argv + 1);
		if (!c) { printf("invalid"); return 1; }
		r = btokCVCBodyEnc(0, c);
		if (r == ERR) printf("err");
		else
		{
			v = out_buf(r);
			if (btokCVCBodyEnc(v, c) != r) printf("size-mismatch"); else put_hex(v, r);
			out_free(v, r);
		}
		free_cvc(c);
	}
	else if (OP("cvcbdec") && argc == 2)
	{
		btok_cvc_t* c = (btok_cvc_t*)out_buf(sizeof(btok_cvc_t));
		x = hex_arg(argv[1], &n);
		r = btokCVCBodyDec(c, x, n);
		if (r == ERR) printf("err");
		else c->sig_len = 0, put_cvc(c), printf(" %zu", r);
		free_cvc(c); hex_free(x, n);
	}
	else if ((OP("cvcwrap") && argc == 9) || (OP("cvciss") && argc == 10))
	{
		int iss = OP("cvciss");
		btok_cvc_t* c = mk_cvc(argv + 1);
		if (!c) { printf("invalid"); return 1; }
		if (iss) y = hex_arg(argv[8], &m);
		x = hex_arg(argv[iss ? 9 : 8], &n);
		code = iss ? btokCVCIss(0, &len, c, y, m, x, n) : btokCVCWrap(0, &len, c, x, n);
		if (code == ERR_OK)
		{
			size_t len2 = 0;
			v = out_buf(len);
			code = iss ? btokCVCIss(v, &len2, c, y, m, x, n) : btokCVCWrap(v, &len2, c, x, n);
			if (code == ERR_OK && len2 != len) code = 9999;
		}
		printf("%u", (unsigned)code);
		if (code == ERR_OK) printf(" "), put_hex(v, len), printf(" "), put_cvc(c);
		if (v) out_free(v, len);
		if (iss) hex_free(y, m);
		hex_free(x, n); free_cvc(c);
	}
	else if (OP("cvcunwrap") && argc == 4)
	{
		btok_cvc_t* c = (btok_cvc_t*)out_buf(sizeof(btok_cvc_t));
		int mode = (int)u_arg(argv[2]);
		static octet foreign[128];
		x = hex_arg(argv[1], &n);
		y = hex_arg(argv[3], &m);
		code = mode == 0 ? btokCVCUnwrap(c, x, n, y, m) : mode == 1 ? btokCVCUnwrap(c, x, n, 0, 0) :
			mode == 2 ? btokCVCUnwrap(c, x, n, c->pubkey, 0) : btokCVCUnwrap(c, x, n, foreign, 0);
		printf("%u", (unsigned)code);
		if (code == ERR_OK) printf(" "), put_cvc(c);
		free_cvc(c); hex_free(x, n); hex_free(y, m);
	}
	else if (OP("cvcval") && argc == 4)
	{
		octet* d = date_arg(argv[3]);
		x = hex_arg(argv[1], &n);
		y = hex_arg(argv[2], &m);
		printf("%u", (unsigned)btokCVCVal(x, n, y, m, d));
		hex_free(x, n); hex_free(y, m); if (d) hex_free(d, 6);
	}
	else if (OP("cvcval2") && argc == 10)
	{
		octet* d = date_arg(argv[9]);
		btok_cvc_t* ca = mk_cvc(argv + 2);
		btok_cvc_t* c = (btok_cvc_t*)out_buf(sizeof(btok_cvc_t));
		err_t code2;
		if (!ca) { printf("invalid"); free_cvc(c); return 1; }
		x = hex_arg(argv[1], &n);
		code2 = btokCVCVal2(0, x, n, ca, d);           /* cvc == NULL: result code only */
		code = btokCVCVal2(c, x, n, ca, d);
		if (code2 != code) printf("null-mismatch:%u ", (unsigned)code2);
		printf("%u", (unsigned)code);
		if (code == ERR_OK) printf(" "), put_cvc(c);
		free_cvc(c); free_cvc(ca); hex_free(x, n); if (d) hex_free(d, 6);
	}
	else if (OP("cvcmatch") && argc == 3)
	{
		x = hex_arg(argv[1], &n);
		y = hex_arg(argv[2], &m);
		printf("%u", (unsigned)btokCVCMatch(x, n, y, m));
		hex_free(x, n); hex_free(y, m);
	}
	else if (OP("cvclen") && argc == 2)
	{
		x = hex_arg(argv[1], &n);
		r = btokCVCLen(x, n);
		if (r == ERR) printf("err"); else printf("%zu", r);
		hex_free(x, n);
	}
	else if (OP("sigvfy") && argc == 4)
	{
		x = hex_arg(argv[1], &n);
		y = hex_arg(argv[2], &m);
		z = hex_arg(argv[3], &k);
		if ((k != 48 && k != 64 && k != 96 && k != 128) || m != (k == 48 ? 34 : k - k / 4)) printf("bad-op");
		else printf("%u", (unsigned)btokVerify(x, n, y, z, k));
		hex_free(x, n); hex_free(y, m); hex_free(z, k);
	}
	else if (OP("pubcalc") && argc == 2)
	{
		x = hex_arg(argv[1], &n);
		v = out_buf(2 * n);
		code = btokPubkeyCalc(v, x, n);
		printf("%u", (unsigned)code);
		if (code == ERR_OK) printf(" "), put_hex(v, 2 * n);
		out_free(v, 2 * n); hex_free(x, n);
	}
	else return 0;
	return 1;
}

/* ---------------------------------------------------------------- bpki containers */

static int handle_bpki(int argc, char** argv)
{
	size_t n = 0, m = 0, k = 0, len = 0;
	octet* x = 0; octet* y = 0; octet* z = 0; octet* v = 0;
	err_t code;
	if ((OP("pkwrap") || OP("shwrap")) && argc == 5)
	{
		int pk = OP("pkwrap");
		size_t iter = (size_t)u_arg(argv[4]);
		x = hex_arg(argv[1], &n); y = hex_arg(argv[2], &m); z = hex_arg(argv[3], &k);
		if (k != 8) printf("bad-op");
		else
		{
			code = pk ? bpkiPrivkeyWrap(0, &len, x, n, y, m, z, iter) : bpkiShareWrap(0, &len, x, n, y, m, z, iter);
			if (code == ERR_OK)
			{
				size_t len2 = 0;
				v = out_buf(len);
				code = pk ? bpkiPrivkeyWrap(v, &len2, x, n, y, m, z, iter) : bpkiShareWrap(v, &len2, x, n, y, m, z, iter);
				if (code == ERR_OK && len2 != len) code = 9999;
			}
			printf("%u", (unsigned)code);
			if (code == ERR_OK) printf(" "), put_hex(v, len);
			if (v) out_free(v, len);
		}
		hex_free(x, n); hex_free(y, m); hex_free(z, k);
	}
	else if ((OP("pkwraplen") || OP("shwraplen")) && argc == 3)
	{
		/* the sizing pass alone: epki == 0, pwd == 0, salt == 0 (allowed by bpki.h); no PBKDF2 is run */
		int pk = OP("pkwraplen");
		size_t iter = (size_t)u_arg(argv[2]);
		x = hex_arg(argv[1], &n);
		len = 0x5A5A;
		code = pk ? bpkiPrivkeyWrap(0, &len, x, n, 0, 0, 0, iter) : bpkiShareWrap(0, &len, x, n, 0, 0, 0, iter);
		printf("%u", (unsigned)code);
		if (code == ERR_OK) printf(" %zu", len);
		hex_free(x, n);
	}
	else if ((OP("pkunwrap") || OP("shunwrap")) && argc == 3)
	{
		int pk = OP("pkunwrap");
		size_t len0 = 0x5A5A;
		x = hex_arg(argv[1], &n); y = hex_arg(argv[2], &m);
		code = pk ? bpkiPrivkeyUnwrap(0, &len0, x, n, y, m) : bpkiShareUnwrap(0, &len0, x, n, y, m);   /* length probe */
		printf("%u", (unsigned)code);
		if (code == ERR_OK)
		{
			v = out_buf(len0);
			len = 0x5A5A;
			code = pk ? bpkiPrivkeyUnwrap(v, &len, x, n, y, m) : bpkiShareUnwrap(v, &len, x, n, y, m);
			printf(" %zu | %u", len0, (unsigned)code);
			if (code == ERR_OK || code == ERR_BAD_SHAREKEY)
			{
				if (len != len0) printf(" size-mismatch"); else printf(" "), put_hex(v, len);
			}
			out_free(v, len0);
		}
		hex_free(x, n); hex_free(y, m);
	}
	else if (OP("rawwrap") && argc == 6)
	{
		size_t iter = (size_t)u_arg(argv[5]);
		size_t pki_len, count;
		octet key[32];
		octet* pki; octet* edata;
		x = hex_arg(argv[2], &n); y = hex_arg(argv[3], &m); z = hex_arg(argv[4], &k);
		if (k != 8 || (strcmp(argv[1], "pk") && strcmp(argv[1], "sh") && strcmp(argv[1], "raw"))) printf("bad-op");
		else
		{
			pki_len = argv[1][0] == 'p' ? bpkiPrivkeyEnc(0, x, n) : argv[1][0] == 's' ? bpkiShareEnc(0, x, n) : n;
			pki = out_buf(pki_len);
			if (argv[1][0] == 'p') bpkiPrivkeyEnc(pki, x, n);
			else if (argv[1][0] == 's') bpkiShareEnc(pki, x, n);
			else memcpy(pki, x, n);
			code = beltPBKDF2(key, y, m, iter, z, 8);
			if (code == ERR_OK)
			{
				edata = out_buf(pki_len + 16);
				code = beltKWPWrap(edata, pki, pki_len, 0, key, 32);
				if (code == ERR_OK)
				{
					count = bpkiEdataEnc(0, 0, pki_len + 16, 0, iter);
					v = out_buf(count);
					if (bpkiEdataEnc(v, edata, pki_len + 16, z, iter) != count) printf("size-mismatch");
					else printf("0 "), put_hex(v, count);
					out_free(v, count);
				}
				else printf("%u", (unsigned)code);
				out_free(edata, pki_len + 16);
			}
			else printf("%u", (unsigned)code);
			out_free(pki, pki_len);
		}
		hex_free(x, n); hex_free(y, m); hex_free(z, k);
	}
	else if (OP("pbkdf") && argc == 4)
	{
		octet key[32];
		x = hex_arg(argv[1], &n); z = hex_arg(argv[3], &k);
		code = beltPBKDF2(key, x, n, (size_t)u_arg(argv[2]), z, k);
		printf("%u", (unsigned)code);
		if (code == ERR_OK) printf(" "), put_hex(key, 32);
		hex_free(x, n); hex_free(z, k);
	}
	else return 0;
	return 1;
}

static void handle(int argc, char** argv)
{
	if (argc < 1 || !argv[0][0]) { printf("bad-op"); return; }
	if (handle_sm(argc, argv)) return;
	if (handle_cvc(argc, argv)) return;
	if (handle_bpki(argc, argv)) return;
	printf("bad-op");
}

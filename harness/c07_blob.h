/* C07 harness, blob layer: an op sequence on two blob handles, run against the REAL blob.c — in the hooked
   build (BLOB_PAGE_SIZE 1) and in the shipped page-rounded build (BLOB_PAGE_SIZE 1024).  After every
   operation the caller-visible state (blobSize + FNV-1a of the contents) of both handles is printed, at the
   end the contents in hex; the Lean driver prints the same from the model (Bee2V/C07/Blob.lean).
   Tokens: see Bee2V/C07/DrvBlob.lean.  `p<N>x<K>` recycles K heap chunks of N octets filled with 0x88, so that
   the next malloc of that size class returns visibly non-zero memory (uninitialised / freed heap). */
#include <bee2/core/blob.h>

static unsigned bl_fnv(const unsigned char* p, size_t n)
{
	unsigned h = 2166136261u;
	size_t i;
	for (i = 0; i < n; ++i) h = (h ^ p[i]) * 16777619u;
	return h;
}
static unsigned char bl_pat(size_t v, size_t i) { return (unsigned char)((v + 7 * i) % 255 + 1); }

static void bl_show(char tag, blob_t b, int dirty)
{
	size_t n = blobSize(b);
	if (dirty) printf("%c%zu:*", tag, n);
	else printf("%c%zu:%u", tag, n, bl_fnv((const unsigned char*)b, n));
}

static int c07_blob(int argc, char** argv)
{
	blob_t h[2] = { 0, 0 };
	int dirty[2] = { 0, 0 };
	int k, first = 1;
	for (k = 1; k < argc; ++k)
	{
		const char* t = argv[k];
		int x = (t[0] && t[1] == 'b') ? 1 : 0;
		if (t[0] == 'p')
		{
			size_t n = 0, cnt = 0, i;
			void** blk;
			if (sscanf(t + 1, "%zux%zu", &n, &cnt) != 2 || cnt > 64) return 0;
			blk = (void**)malloc(cnt * sizeof(void*));
			for (i = 0; i < cnt; ++i) { blk[i] = malloc(n); if (blk[i]) memset(blk[i], 0x88, n); }
			for (i = 0; i < cnt; ++i) free(blk[i]);
			free(blk);
			continue;
		}
		if (!first) printf(";");
		first = 0;
		if (t[0] == 'q' && t[1] == 0)
		{
			if (dirty[0] || dirty[1]) printf("q*");
			else
			{
				int c = blobCmp(h[0], h[1]);
				printf("q%d%d", c < 0 ? -1 : c > 0 ? 1 : 0, blobEq(h[0], h[1]) ? 1 : 0);
			}
			continue;
		}
		if (t[1] != 'a' && t[1] != 'b') return 0;
		switch (t[0])
		{
		case 'c':
			if (h[x]) blobClose(h[x]);
			h[x] = blobCreate((size_t)strtoull(t + 2, 0, 10));
			dirty[x] = 0;
			break;
		case 'r':
			h[x] = blobResize(h[x], (size_t)strtoull(t + 2, 0, 10));
			if (blobSize(h[x]) == 0) dirty[x] = 0;
			break;
		case 'f':
		{
			size_t v = (size_t)strtoull(t + 2, 0, 10), n = blobSize(h[x]), i;
			for (i = 0; i < n; ++i) ((unsigned char*)h[x])[i] = bl_pat(v, i);
			dirty[x] = 0;
			break;
		}
		case 'w':
		{
			size_t off = 0, len = 0, v = 0, n = blobSize(h[x]), i;
			if (sscanf(t + 2, "%zu,%zu,%zu", &off, &len, &v) != 3) return 0;
			for (i = off; i < off + len && i < n; ++i) ((unsigned char*)h[x])[i] = bl_pat(v, i);
			break;
		}
		case 'z':
			blobWipe(h[x]);
			dirty[x] = blobSize(h[x]) > 0;
			break;
		case 'y':
		{
			int s = t[2] == 'b' ? 1 : t[2] == 'a' ? 0 : -1;
			if (s < 0) return 0;
			if (s != x)
			{
				h[x] = blobCopy(h[x], h[s]);
				dirty[x] = dirty[s] && blobSize(h[x]) > 0;
			}
			break;
		}
		case 'x':
			blobClose(h[x]);
			h[x] = 0;
			dirty[x] = 0;
			break;
		default:
			return 0;
		}
		if (!blobIsValid(h[x])) { fprintf(stderr, "Assertion c07: blobIsValid fails\n"); abort(); }
		bl_show('a', h[0], dirty[0]);
		printf(" ");
		bl_show('b', h[1], dirty[1]);
	}
	printf(" | A=");
	if (dirty[0]) printf("*"); else put_hex(h[0], blobSize(h[0]));
	printf(" B=");
	if (dirty[1]) printf("*"); else put_hex(h[1], blobSize(h[1]));
	blobClose(h[0]);
	blobClose(h[1]);
	return 1;
}

#!/bin/bash
# usage: MUTROOT=/tmp/mut/w3 tools_wave.sh validate|keep|sweep <mA> <mB>
# validate: tools_validate.sh for every property's two changes (two lanes) -> $MUTROOT/validate.log
# keep:     copies every validated change into /verif/seeded/<id>-<m>/ (verdict "pending")
# sweep:    runs each property's own check against its two changes (four lanes) -> $MUTROOT/sweep/<id>.log
R=${MUTROOT:?}; ACT=$1; A=$2; B=$3; cd /verif
extra() { d=$R/$1.out/$2; f=""; grep -q -- "--wrap=malloc" $d/meta.json 2>/dev/null && f="-Wl,--wrap=malloc -Wl,--wrap=free -Wl,--wrap=realloc"; grep -q -- "--wrap=free" $d/meta.json 2>/dev/null && [ -z "$f" ] && f="-Wl,--wrap=free"; echo $f; }
case $ACT in
validate)
  lane() { for id in "$@"; do for m in $A $B; do [ -f $R/$id.out/$m/patch.diff ] && ./tools_validate.sh $id $m $(extra $id $m); done; done; }
  lane C01 C02 C03 C04 C05 C06 C07 C08 C09 C10 > $R/validate_a.log 2>&1 &
  lane C11 C12 C13 C14 C15 C16 C17 C18 C19 C20 > $R/validate_b.log 2>&1 &
  wait; cat $R/validate_a.log $R/validate_b.log > $R/validate.log; grep -c '"demo_orig":0' $R/validate.log; grep -v '"suite_ok":38,"suite_err":0,"demo_orig":0,"demo_patched":[1-9]' $R/validate.log ;;
keep)
  grep '^{' $R/validate.log | while read v; do id=$(echo "$v" | sed 's/.*"id":"\(C[0-9]*\)-\(m[0-9]*\)".*/\1 \2/'); set -- $id; python3 tools_keep.py $1 $2 "$v" "pending"; done ;;
sweep)
  mkdir -p $R/sweep
  lane() { for id in "$@"; do ./tools_sweep.sh $id $id-$A $id-$B > $R/sweep/$id.log 2>&1; done; }
  lane C20 C01 C05 C09 C13 & lane C02 C06 C10 C14 C17 & lane C03 C07 C11 C15 C18 & lane C04 C08 C12 C16 C19 & wait; cat $R/sweep/*.log ;;
esac

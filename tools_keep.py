#!/usr/bin/env python3
"""usage: tools_keep.py <Cxx> <mK> '<validate json>' '<caught-by text>'
Copies a confirmed seeded change into /verif/seeded/<Cxx>-<mK>/ with meta.json."""
import sys, json, os, shutil
pid, m, val, caught = sys.argv[1:5]
src = "%s/%s.out/%s" % (os.environ.get("MUTROOT", "/tmp/mut"), pid, m)
dst = "/verif/seeded/%s-%s" % (pid, m)
os.makedirs(dst, exist_ok=True)
for f in os.listdir(src):
    if os.path.isfile(os.path.join(src, f)):
        shutil.copy(os.path.join(src, f), dst)
meta = json.load(open(os.path.join(src, "meta.json")))
v = json.loads(val)
out = {"property": pid, "summary": meta.get("summary"), "needs_to_manifest": meta.get("needs_to_manifest"),
       "files_changed": meta.get("files_changed"), "author": "independent sub-agent (saw only the property text and a scratch worktree)",
       "confirmed_by_me": {"suite_subtests_ok": v["suite_ok"], "suite_subtests_err": v["suite_err"], "build_rc": v["build_rc"],
                           "demo_exit_original": v["demo_orig"], "demo_exit_patched": v["demo_patched"],
                           "how": "tools_validate.sh: scratch worktree, Release build, test/testbee2 (38 sub-tests), demo built against both builds"},
       "checks_run": caught, "agent_commands": meta.get("commands_run")}
json.dump(out, open(os.path.join(dst, "meta.json"), "w"), indent=1, ensure_ascii=False)
print("kept", dst)
